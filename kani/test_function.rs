// harnesses for test_function (cfg(kani) only)
