// Harnesses for src/query/test_function.rs (cfg(kani) only): C10 (length, count, value), C14 plumbing.
#![allow(unused_imports, dead_code)]
use super::*;
use crate::verif_common::*;
use core::mem::{forget, MaybeUninit};

fn as_int(s: &State<Mini>) -> Option<i64> {
    match &s.data {
        Data::Value(Mini::Int(i)) => Some(*i),
        _ => None,
    }
}

// ---- length(): RFC 9535 2.4.4 ------------------------------------------------
// argument given as node reference and as owned value (both forms)
macro_rules! c10_length {
    ($name:ident, $unwind:expr, |$sc:ident| $build:block) => {
        proof!($name, $unwind, {
            let root = Mini::Null;
            let mut $sc = Scratch::new();
            let (node, expect): (Mini, Option<i64>) = $build;
            let r1 = length(State::data(&root, Data::Ref(Pointer::new(&node, String::from("p")))));
            let r2 = length(State::data(&root, Data::Value(node)));
            match expect {
                Some(n) => {
                    assert!(as_int(&r1) == Some(n), "length of a node differs from RFC 9535");
                    assert!(as_int(&r2) == Some(n), "length of a value differs from RFC 9535");
                }
                None => {
                    assert!(r1.is_nothing(), "length of a non string/array/object node must be Nothing");
                    assert!(r2.is_nothing(), "length of a non string/array/object value must be Nothing");
                }
            }
            kani::cover!(true, "end reached");
            forget(r1);
            forget(r2);
            forget($sc);
        });
    };
}
// strings: concrete byte length per harness (a symbolic length drags core's
// chunked do_count_chars path into symex), arbitrary valid UTF-8 content of the
// stated scalar widths; RFC: length = number of Unicode scalar values.
macro_rules! c10_length_str {
    ($name:ident, $unwind:expr, [$($w:expr),*]) => {
        c10_length!($name, $unwind, |sc| {
            let mut buf = [0u8; 8];
            let mut at = 0usize;
            let mut n = 0i64;
            $( sym_scalar(&mut buf, at, $w); at += $w; n += 1; )*
            let s = str_over(leak(buf), at);
            (Mini::Str(s), Some(n))
        });
    };
}
c10_length_str!(c10_length_str_empty, 3, []);
c10_length_str!(c10_length_str_w1, 4, [1]);
c10_length_str!(c10_length_str_w2, 5, [2]);
c10_length_str!(c10_length_str_w3, 6, [3]);
c10_length_str!(c10_length_str_w4, 7, [4]);
c10_length_str!(c10_length_str_w1_3, 7, [1, 3]);
c10_length_str!(c10_length_str_w4_4, 11, [4, 4]);
c10_length_str!(c10_length_str_w1_1_1, 6, [1, 1, 1]);
c10_length_str!(c10_length_str_w2_4_1, 10, [2, 4, 1]);
c10_length!(c10_length_arr, 5, |sc| {
    let n: usize = kani::any();
    kani::assume(n <= 3);
    sc.elems[0] = Mini::Int(kani::any());
    sc.elems[1] = Mini::Null;
    sc.elems[2] = Mini::Bool(kani::any());
    kani::cover!(n == 0, "empty array");
    kani::cover!(n == 3, "three elements");
    (sc.arr(n), Some(n as i64))
});
c10_length!(c10_length_obj, 5, |sc| {
    let n: usize = kani::any();
    kani::assume(n <= 3);
    sc.set(0, "a", Mini::Int(kani::any()));
    sc.set(1, "b", Mini::Null);
    sc.set(2, "c", Mini::Bool(kani::any()));
    kani::cover!(n == 0, "empty object");
    kani::cover!(n == 3, "three members");
    (sc.obj(n), Some(n as i64))
});
c10_length!(c10_length_int, 3, |sc| { (Mini::Int(kani::any()), None) });
c10_length!(c10_length_float, 3, |sc| { (Mini::Float(any_finite_f64()), None) });
c10_length!(c10_length_bool, 3, |sc| { (Mini::Bool(kani::any()), None) });
c10_length!(c10_length_null, 3, |sc| { (Mini::Null, None) });

proof!(c10_length_nothing, 3, {
    let root = Mini::Null;
    let r = length(State::nothing(&root));
    assert!(r.is_nothing(), "length of an empty nodelist must be Nothing");
    kani::cover!(true, "end reached");
});

// ---- count(): RFC 9535 2.4.5 ---------------------------------------------------
macro_rules! c10_count {
    ($name:ident, $k:expr) => {
        proof!($name, 6, {
            let root = Mini::Null;
            let nodes = [Mini::Int(kani::any()), Mini::Null, Mini::Bool(kani::any()), Mini::Int(kani::any())];
            let mut buf: [MaybeUninit<Pointer<Mini>>; 4] = [MaybeUninit::uninit(), MaybeUninit::uninit(), MaybeUninit::uninit(), MaybeUninit::uninit()];
            let d = refs_of(&nodes, &mut buf, $k);
            let r = count(State::data(&root, d));
            assert!(as_int(&r) == Some($k as i64), "count differs from the number of selected nodes");
            kani::cover!(true, "end reached");
            forget(r);
        });
    };
}
c10_count!(c10_count_refs0, 0);
c10_count!(c10_count_refs1, 1);
c10_count!(c10_count_refs3, 3);

proof!(c10_count_ref, 3, {
    let root = Mini::Null;
    let node = Mini::Null; // value irrelevant: null counts
    let r = count(State::data(&root, Data::Ref(Pointer::new(&node, String::from("p")))));
    assert!(as_int(&r) == Some(1), "count of a single node must be 1");
    kani::cover!(true, "end reached");
    forget(r);
});

proof!(c10_count_nothing, 3, {
    let root = Mini::Null;
    let r = count(State::nothing(&root));
    assert!(as_int(&r) == Some(0), "count of an empty nodelist must be 0");
    kani::cover!(true, "end reached");
    forget(r);
});

// ---- value(): RFC 9535 2.4.8 ---------------------------------------------------
macro_rules! c10_value_refs {
    ($name:ident, $k:expr) => {
        proof!($name, 6, {
            let root = Mini::Null;
            let nodes = [Mini::Int(kani::any()), Mini::Null, Mini::Bool(kani::any()), Mini::Int(kani::any())];
            let mut buf: [MaybeUninit<Pointer<Mini>>; 4] = [MaybeUninit::uninit(), MaybeUninit::uninit(), MaybeUninit::uninit(), MaybeUninit::uninit()];
            let d = refs_of(&nodes, &mut buf, $k);
            let r = value(State::data(&root, d));
            if $k == 1 {
                match &r.data {
                    Data::Ref(p) => assert!(core::ptr::eq(p.inner, &nodes[0]), "value() of a one-node list must be that node"),
                    _ => assert!(false, "value() of a one-node list must be that node"),
                }
            } else {
                assert!(r.is_nothing(), "value() of an empty or multi-node list must be Nothing");
            }
            kani::cover!(true, "end reached");
            forget(r);
        });
    };
}
c10_value_refs!(c10_value_refs0, 0);
c10_value_refs!(c10_value_refs1, 1);
c10_value_refs!(c10_value_refs2, 2);
c10_value_refs!(c10_value_refs3, 3);

proof!(c10_value_ref, 3, {
    let root = Mini::Null;
    let node = Mini::Int(kani::any());
    let r = value(State::data(&root, Data::Ref(Pointer::new(&node, String::from("p")))));
    match &r.data {
        Data::Ref(p) => assert!(core::ptr::eq(p.inner, &node), "value() of a single node must be that node"),
        _ => assert!(false, "value() of a single node must be that node"),
    }
    let r2 = value(State::nothing(&root));
    assert!(r2.is_nothing(), "value() of nothing must be Nothing");
    kani::cover!(true, "end reached");
    forget(r);
});

// ---------------------------------------------------------------------------
// C14 (plumbing): arguments of an extension function reach the data type's hook one
// value per argument that selects a node; an argument that selects nothing is not
// turned into a value (so the five documented functions see a wrong arity and yield
// "not a Boolean", i.e. the test is false).
use crate::parser::model::{Literal, Segment, Selector, Test};
macro_rules! c14_custom_args {
    ($name:ident, $first_missing:expr, $second_missing:expr) => {
        proof!($name, 8, {
            let root = Mini::Null;
            let mut sc = Scratch::new();
            sc.set(0, "a", Mini::Int(kani::any()));
            sc.set(1, "l", Mini::Null);
            let node = sc.obj(2);
            let (mut sa, mut sl, mut sz1, mut sz2) = (m_name("a"), m_name("l"), m_name("zz"), m_name("yy"));
            let mut t1 = if $first_missing { Test::RelQuery(seg_vec(&mut sz1, 1)) } else { Test::RelQuery(seg_vec(&mut sa, 1)) };
            let mut t2 = if $second_missing { Test::RelQuery(seg_vec(&mut sz2, 1)) } else { Test::RelQuery(seg_vec(&mut sl, 1)) };
            let mut buf = Pair { a: mfn_test(&mut t1), b: mfn_test(&mut t2) };
            let args = core::mem::ManuallyDrop::new(fnarg_vec(&mut buf, 2));
            let r = custom("in", &args, State::data(&root, Data::Ref(Pointer::new(&node, String::from("p")))));
            let expect = (if $first_missing { 0 } else { 1 }) + (if $second_missing { 0 } else { 1 });
            assert!(as_int(&r) == Some(expect), "an argument that selects nothing must not reach the extension hook as a value");
            kani::cover!(true, "end reached");
            forget(r);
            forget(buf);
            forget(sc);
        });
    };
}
c14_custom_args!(c14_custom_args_both, false, false);
c14_custom_args!(c14_custom_args_first_missing, true, false);
c14_custom_args!(c14_custom_args_second_missing, false, true);

// ---------------------------------------------------------------------------
// C10: function results take part in comparisons as ordinary values:
// `length(@) <op> c` and `count(@) == c`, `value(@) == c` through Comparison::process.
use crate::parser::model::{Comparison, FnArg, TestFunction};
use crate::query::Query;
macro_rules! c10_fn_in_cmp {
    ($name:ident, |$sc:ident, $arg:ident, $t2:ident| $node:expr, $tf:expr, |$c:ident| $spec:expr) => {
        proof!($name, 6, {
            let root = Mini::Null;
            let mut $sc = Scratch::new();
            let node: Mini = $node;
            let $c: i64 = any_ijson();
            let mut t = Test::RelQuery(Vec::new());
            // the function argument `@` as a mirror in typed storage
            let mut $arg = mfn_test(&mut t);
            let mut $t2 = Test::RelQuery(Vec::new());
            let tf: TestFunction = $tf;
            let mut cmp = MCmp { tag: OP_EQ, a: mc_fn(tf), b: mc_lit(Literal::Int($c)) };
            let r = as_cmp(&cmp).process(State::data(&root, Data::Ref(Pointer::new(&node, String::from("p")))));
            let got = matches!(r.data, Data::Value(Mini::Bool(true)));
            assert!(got == $spec, "a function result must compare like the value it denotes");
            kani::cover!(got, "comparison true");
            kani::cover!(!got, "comparison false");
            forget(r);
            forget(cmp);
            forget($sc);
        });
    };
}
fn fnarg_box(m: &mut MFnTest) -> Box<FnArg> {
    unsafe { Box::from_raw(m as *mut MFnTest as *mut FnArg) }
}
c10_fn_in_cmp!(c10_length_in_cmp, |sc, arg, t2| { sc.elems[0] = Mini::Null; sc.elems[1] = Mini::Null; let n: usize = kani::any(); kani::assume(n <= 2); sc.o.len = n; sc.arr(n) },
    TestFunction::Length(fnarg_box(&mut arg)), |c| c == sc.o.len as i64);
c10_fn_in_cmp!(c10_count_in_cmp, |sc, arg, t2| Mini::Null, TestFunction::Count(FnArg::Test(tbox(&mut t2))), |c| c == 1);
c10_fn_in_cmp!(c10_value_in_cmp, |sc, arg, t2| Mini::Int(7), TestFunction::Value(FnArg::Test(tbox(&mut t2))), |c| c == 7);

// (a no-panic harness for prepare_regex was tried: `str::contains` goes through core's SIMD
// substring search, no verdict in 400 s.)
// length of a string literal argument: length("<1 ASCII byte><1 two-byte scalar>") == 2
proof!(c10_length_literal_in_cmp, 8, {
    let root = Mini::Null;
    let node = Mini::Null;
    let c: i64 = any_ijson();
    let mut buf = [0u8; 4];
    sym_scalar(&mut buf, 0, 1);
    sym_scalar(&mut buf, 1, 2);
    let mut arg = mfn_lit(Literal::String(String::from(str_over(&buf, 3))));
    let tf = TestFunction::Length(unsafe { Box::from_raw(&mut arg as *mut MFnLit as *mut FnArg) });
    let mut cmp = MCmp { tag: OP_EQ, a: mc_fn(tf), b: mc_lit(Literal::Int(c)) };
    let r = as_cmp(&cmp).process(State::data(&root, Data::Ref(Pointer::new(&node, String::from("p")))));
    let got = matches!(r.data, Data::Value(Mini::Bool(true)));
    assert!(got == (c == 2), "length of a two-scalar string literal must be 2 (scalars, not bytes)");
    kani::cover!(got, "c == 2");
    forget(r);
    forget(cmp);
});

// count() counts nodes, not distinct nodes: a node selected twice counts twice
// (`count(@[0,0])`, `count(@[0,-1])` on a one-element array). Nodelist [n0, n0, n1] with the
// paths a real evaluation would report.
proof!(c10_count_dup, 6, {
    let root = Mini::Null;
    let nodes = [Mini::Int(kani::any()), Mini::Bool(kani::any())];
    let mut buf: [MaybeUninit<Pointer<Mini>>; 4] = [MaybeUninit::uninit(), MaybeUninit::uninit(), MaybeUninit::uninit(), MaybeUninit::uninit()];
    buf[0].write(Pointer::new(&nodes[0], String::from("$[0]")));
    buf[1].write(Pointer::new(&nodes[0], String::from("$[0]")));
    buf[2].write(Pointer::new(&nodes[1], String::from("$[1]")));
    let v = unsafe { Vec::from_raw_parts(buf.as_mut_ptr() as *mut Pointer<Mini>, 3, 4) };
    let r = count(State::data(&root, Data::Refs(v)));
    assert!(as_int(&r) == Some(3), "count must count a node that was selected twice twice");
    kani::cover!(true, "end reached");
    forget(r);
});
