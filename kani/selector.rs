// Harnesses for src/query/selector.rs (cfg(kani) only): C01, C02, C03, C08, C11, C13.
#![allow(unused_imports, dead_code)]
use super::*;
use crate::verif_common::*;
use core::mem::forget;

// ---------------------------------------------------------------------------
// C11 / C08: index selector against RFC 9535 2.3.3, array length concrete,
// index any I-JSON integer.
macro_rules! c11_index {
    ($name:ident, $len:expr) => {
        c11_index!($name, $len, proof, 7);
    };
    ($name:ident, $len:expr, $pm:ident, $unwind:expr) => {
        $pm!($name, $unwind, {
            let a = marker_array($len);
            let doc = Mini::Arr(a);
            let i = any_ijson();
            let d = process_index(root_ptr(&doc), &i);
            let exp = rfc_index(i, $len as i64);
            match &d {
                Data::Ref(p) => {
                    assert!(exp.is_some(), "index selected a node where RFC selects none");
                    let k = exp.unwrap_or(0);
                    assert!(core::ptr::eq(p.inner, &a[k]), "index selected the wrong element");
                }
                Data::Nothing => assert!(exp.is_none(), "index selected nothing where RFC selects a node"),
                _ => assert!(false, "index selector must yield zero or one node"),
            }
            kani::cover!($len == 0 || (exp.is_some() && i < 0), "negative index in range");
            kani::cover!(exp.is_none() && i < 0, "negative index out of range");
            kani::cover!(exp.is_none() && i > 0, "positive index out of range");
            forget(d);
        });
    };
}
c11_index!(c11_index_len0, 0);
c11_index!(c11_index_len1, 1);
c11_index!(c11_index_len3, 3);
c11_index!(c11_index_len4, 4);
c11_index!(c11_index_len8, 8, proof_k8, 10);

// ---------------------------------------------------------------------------
// C11 / C02 / C08: slice selector against the RFC 9535 2.3.4.2.2 pseudo-code.
// start, end, step each absent or any I-JSON integer (all 8 presence
// combinations in one query); termination = unwinding assertion.
macro_rules! c11_slice {
    ($name:ident, $len:expr, $unwind:expr) => {
        c11_slice!($name, $len, $unwind, proof);
    };
    ($name:ident, $len:expr, $unwind:expr, $pm:ident) => {
        $pm!($name, $unwind, {
            let a = marker_array($len);
            let doc = Mini::Arr(a);
            let (s, e, st) = (any_opt_ijson(), any_opt_ijson(), any_opt_ijson());
            let d = process_slice(root_ptr(&doc), &s, &e, &st);
            let mut exp = [0usize; 8];
            let n_exp = rfc_slice(s, e, st, $len as i64, &mut exp);
            let mut got = [core::ptr::null::<Mini>(); 8];
            let n_got = nodes_of(&d, &mut got);
            assert!(n_got == n_exp, "slice selected a different number of elements than RFC 9535");
            let mut k = 0;
            while k < n_exp {
                assert!(core::ptr::eq(got[k], &a[exp[k]]), "slice element differs from RFC 9535 (index or order)");
                k += 1;
            }
            kani::cover!($len < 2 || (n_exp >= 2 && st.is_some() && st.unwrap_or(1) < 0), "negative step, several elements");
            kani::cover!($len < 3 || (n_exp >= 2 && st.unwrap_or(1) > 1), "step > 1, several elements");
            kani::cover!($len < 1 || (n_exp >= 1 && s.is_none() && st.unwrap_or(1) < 0), "negative step, start absent");
            kani::cover!(n_exp == $len && e.is_none(), "whole array, end absent");
            kani::cover!(st == Some(0), "step zero");
            forget(d);
        });
    };
}
c11_slice!(c11_slice_len0, 0, 2);
c11_slice!(c11_slice_len1, 1, 3);
c11_slice!(c11_slice_len2, 2, 4);
c11_slice!(c11_slice_len3, 3, 5);
c11_slice!(c11_slice_len4, 4, 6);
// thorough tier: longer arrays under the K = 8 allocation regime
c11_slice!(c11_slice_len5, 5, 7, proof_k8);
c11_slice!(c11_slice_len6, 6, 8, proof_k8);
c11_slice!(c11_slice_len7, 7, 9, proof_k8);
c11_slice!(c11_slice_len8, 8, 10, proof_k8);

// ---------------------------------------------------------------------------
// C01 / C02: wildcard selector (RFC 9535 2.3.2): all children, document order,
// the nodes themselves (pointer identity), nothing for scalars / empty containers.
proof!(c01_wildcard_arr, 6, {
    let mut sc = Scratch::new();
    let n: usize = kani::any();
    kani::assume(n <= 3);
    sc.elems[0] = Mini::Int(kani::any());
    sc.elems[1] = Mini::Null;
    sc.elems[2] = Mini::Bool(kani::any());
    let doc = sc.arr(n);
    let d = process_wildcard(root_ptr(&doc));
    let mut got = [core::ptr::null::<Mini>(); 8];
    let k = nodes_of(&d, &mut got);
    assert!(k == n, "wildcard must select every element exactly once");
    let mut i = 0;
    while i < n {
        assert!(core::ptr::eq(got[i], &sc.elems[i]), "wildcard must yield the elements themselves in index order");
        i += 1;
    }
    kani::cover!(n == 0, "empty array");
    kani::cover!(n == 3, "three elements");
    forget(d);
    forget(sc);
});
proof!(c01_wildcard_obj, 6, {
    let mut sc = Scratch::new();
    let n: usize = kani::any();
    kani::assume(n <= 3);
    sc.set(0, "b", Mini::Int(kani::any()));
    sc.set(1, "a", Mini::Null);
    sc.set(2, "c", Mini::Bool(kani::any()));
    let doc = sc.obj(n);
    let d = process_wildcard(root_ptr(&doc));
    let mut got = [core::ptr::null::<Mini>(); 8];
    let k = nodes_of(&d, &mut got);
    assert!(k == n, "wildcard must select every member value exactly once");
    let mut i = 0;
    while i < n {
        assert!(core::ptr::eq(got[i], &sc.o.vals[i]), "wildcard must yield the member values themselves in document order");
        i += 1;
    }
    kani::cover!(n == 0, "empty object");
    kani::cover!(n == 3, "three members");
    forget(d);
    forget(sc);
});
macro_rules! c01_scalar_doc {
    ($name:ident, $doc:expr) => {
        proof!($name, 6, {
            let doc: Mini = $doc;
            let (i, s, e, st) = (any_ijson(), any_opt_ijson(), any_opt_ijson(), any_opt_ijson());
            let d1 = process_wildcard(root_ptr(&doc));
            let d2 = process_index(root_ptr(&doc), &i);
            let d3 = process_slice(root_ptr(&doc), &s, &e, &st);
            let d4 = process_key(root_ptr(&doc), "a");
            assert!(matches!(d1, Data::Nothing), "wildcard on a scalar must select nothing");
            assert!(matches!(d2, Data::Nothing), "index on a non-array must select nothing");
            assert!(matches!(d3, Data::Nothing), "slice on a non-array must select nothing");
            assert!(matches!(d4, Data::Nothing), "name on a non-object must select nothing");
            kani::cover!(true, "end reached");
        });
    };
}
c01_scalar_doc!(c01_selectors_on_int, Mini::Int(kani::any()));
c01_scalar_doc!(c01_selectors_on_str, Mini::Str(leak_str(any_ascii(1))));
c01_scalar_doc!(c01_selectors_on_null, Mini::Null);

// index / slice on an object, name on an array
proof!(c01_wrong_container, 6, {
    let mut so = Scratch::new();
    let mut sa = Scratch::new();
    so.set(0, "0", Mini::Int(kani::any()));
    so.set(1, "a", Mini::Null);
    let o = so.obj(2);
    sa.elems[0] = Mini::Int(kani::any());
    sa.elems[1] = Mini::Null;
    let a = sa.arr(2);
    let (i, s, e, st) = (any_ijson(), any_opt_ijson(), any_opt_ijson(), any_opt_ijson());
    let d2 = process_index(root_ptr(&o), &i);
    let d3 = process_slice(root_ptr(&o), &s, &e, &st);
    let d4 = process_key(root_ptr(&a), "0");
    let d5 = process_key(root_ptr(&a), "a");
    assert!(matches!(d2, Data::Nothing), "index on an object must select nothing");
    assert!(matches!(d3, Data::Nothing), "slice on an object must select nothing");
    assert!(matches!(d4, Data::Nothing), "name on an array must select nothing");
    assert!(matches!(d5, Data::Nothing), "name on an array must select nothing");
    kani::cover!(true, "end reached");
    forget(so);
    forget(sa);
});

// name selector (RFC 9535 2.3.1): the member with exactly that name, or nothing.
// Object {"a": x, "b": y, "ab": z} with symbolic values; concrete names (a symbolic
// name makes normalize_json_key's String building intractable - measured).
macro_rules! c01_name {
    ($name:ident, $key:expr, $exp:expr) => {
        proof!($name, 8, {
            let mut sc = Scratch::new();
            sc.set(0, "a", Mini::Int(kani::any()));
            sc.set(1, "b", Mini::Null);
            sc.set(2, "ab", Mini::Bool(kani::any()));
            let doc = sc.obj(3);
            let d = process_key(root_ptr(&doc), $key);
            let exp: Option<usize> = $exp;
            match &d {
                Data::Ref(p) => {
                    assert!(exp.is_some(), "name selector selected a member although no member has that name");
                    assert!(core::ptr::eq(p.inner, &sc.o.vals[exp.unwrap_or(0)]), "name selector selected the wrong member");
                }
                Data::Nothing => assert!(exp.is_none(), "name selector selected nothing although a member has that name"),
                _ => assert!(false, "name selector must yield zero or one node"),
            }
            kani::cover!(true, "end reached");
            forget(d);
            forget(sc);
        });
    };
}
c01_name!(c01_name_a, "a", Some(0));
c01_name!(c01_name_b, "b", Some(1));
c01_name!(c01_name_ab, "ab", Some(2));
c01_name!(c01_name_ba, "ba", None);
c01_name!(c01_name_c, "c", None);
c01_name!(c01_name_empty, "", None);

// C13: the three spellings of a name hand the evaluator a, 'a', "a": same member.
proof!(c13_name_spellings, 8, {
    let mut sc = Scratch::new();
    sc.set(0, "b", Mini::Int(kani::any()));
    sc.set(1, "a", Mini::Null);
    let doc = sc.obj(2);
    let d1 = process_key(root_ptr(&doc), "a");
    let d2 = process_key(root_ptr(&doc), "'a'");
    let d3 = process_key(root_ptr(&doc), "\"a\"");
    let ok = |d: &Data<Mini>| matches!(d, Data::Ref(p) if core::ptr::eq(p.inner, &sc.o.vals[1]));
    assert!(ok(&d1), "shorthand name must select the member");
    assert!(ok(&d2), "single-quoted name must select the same member");
    assert!(ok(&d3), "double-quoted name must select the same member");
    let d4 = process_key(root_ptr(&doc), "'c'");
    assert!(matches!(d4, Data::Nothing), "absent quoted name must select nothing");
    kani::cover!(true, "end reached");
    forget(d1);
    forget(d2);
    forget(d3);
    forget(sc);
});

// ---------------------------------------------------------------------------
// C03: Normalized Paths (RFC 9535 2.7), real core::fmt (no format stub).
fn path_is(p: &str, exp: &[u8], n: usize) -> bool {
    let b = p.as_bytes();
    if b.len() != n {
        return false;
    }
    let mut i = 0;
    while i < n {
        if b[i] != exp[i] {
            return false;
        }
        i += 1;
    }
    true
}
/// writes prefix + '[' + decimal(i) + ']' into out, returns length (i <= 9999)
fn spec_idx_path(prefix: &[u8], i: usize, out: &mut [u8; 24]) -> usize {
    let mut n = 0;
    while n < prefix.len() {
        out[n] = prefix[n];
        n += 1;
    }
    out[n] = b'[';
    n += 1;
    let d = [(i / 1000) % 10, (i / 100) % 10, (i / 10) % 10, i % 10];
    let mut started = false;
    let mut k = 0;
    while k < 4 {
        if d[k] != 0 || started || k == 3 {
            out[n] = b'0' + d[k] as u8;
            n += 1;
            started = true;
        }
        k += 1;
    }
    out[n] = b']';
    n + 1
}

proof_fmt!(c03_idx_path, 12, {
    let node = Mini::Null;
    let i: usize = kani::any();
    kani::assume(i <= 9999);
    let p = Pointer::idx(&node, String::from("$"), i);
    let mut exp = [0u8; 24];
    let n = spec_idx_path(b"$", i, &mut exp);
    assert!(path_is(&p.path, &exp, n), "index step of a Normalized Path must be [<decimal index>]");
    kani::cover!(i >= 1000, "four digits");
    kani::cover!(i < 10, "one digit");
    forget(p);
});

// name step for a one-byte ASCII name that needs no escaping (role A)
proof_fmt!(c03_key_path_plain, 12, {
    let node = Mini::Null;
    let c: u8 = kani::any();
    kani::assume(c >= 0x20 && c < 0x7f && c != b'\'' && c != b'\\');
    let buf = [c];
    let p = Pointer::key(&node, String::from("$"), str_over(&buf, 1));
    let exp = [b'$', b'[', b'\'', c, b'\'', b']'];
    assert!(path_is(&p.path, &exp, 6), "name step of a Normalized Path must be ['<name>']");
    kani::cover!(c == b'"', "double quote needs no escaping in a normalized path");
    kani::cover!(c == b'a', "letter");
    forget(p);
});
// two-byte ASCII names that need no escaping - including names that begin and end with a
// double quote (a document member may be called `""`): reported verbatim between single quotes
proof_fmt!(c03_key_path_plain2, 12, {
    let node = Mini::Null;
    let (c, d): (u8, u8) = (kani::any(), kani::any());
    kani::assume(c >= 0x20 && c < 0x7f && c != b'\'' && c != b'\\');
    kani::assume(d >= 0x20 && d < 0x7f && d != b'\'' && d != b'\\');
    let buf = [c, d];
    let p = Pointer::key(&node, String::from("$"), str_over(&buf, 2));
    let exp = [b'$', b'[', b'\'', c, d, b'\'', b']'];
    assert!(path_is(&p.path, &exp, 7), "name step of a Normalized Path must be ['<name>'] for a two-character member name");
    kani::cover!(c == b'"' && d == b'"', "member name made of two double quotes");
    kani::cover!(c == b'a' && d == b'b', "letters");
    forget(p);
});
// names that need escaping: ' \ and control characters (role B, finding F3)
proof_fmt!(c03_roleb_key_path_escaped, 12, {
    let node = Mini::Null;
    let c: u8 = kani::any();
    kani::assume(c == b'\'' || c == b'\\' || c == b'\n' || c == b'\t');
    let buf = [c];
    let p = Pointer::key(&node, String::from("$"), str_over(&buf, 1));
    let e = if c == b'\n' { b'n' } else if c == b'\t' { b't' } else { c };
    let exp = [b'$', b'[', b'\'', b'\\', e, b'\'', b']'];
    assert!(path_is(&p.path, &exp, 7), "quote, backslash and control characters must be escaped in a Normalized Path");
    forget(p);
});

// routes: the path appended is that of the real location
macro_rules! c03_index_route {
    ($name:ident, $len:expr) => {
        proof_fmt!($name, 12, {
            let a = marker_array($len);
            let doc = Mini::Arr(a);
            let i: i64 = kani::any();
            kani::assume(i >= -($len as i64) - 1 && i <= $len as i64);
            let d = process_index(root_ptr(&doc), &i);
            if let Data::Ref(p) = &d {
                let k = rfc_index(i, $len as i64).unwrap_or(0);
                let mut exp = [0u8; 24];
                let n = spec_idx_path(b"$", k, &mut exp);
                assert!(path_is(&p.path, &exp, n), "a negative index must be reported as its non-negative normalized index");
            }
            kani::cover!(matches!(d, Data::Ref(_)) && i < 0, "negative index in range");
            forget(d);
        });
    };
}
c03_index_route!(c03_index_route_len3, 3);

proof_fmt!(c03_slice_route, 12, {
    let a = marker_array(3);
    let doc = Mini::Arr(a);
    let (s, e, st) = (any_opt_ijson(), any_opt_ijson(), any_opt_ijson());
    // negative steps only (the case where the reported index needs care), end absent,
    // start absent or 0..2 (real formatting of every path makes wider domains run out of memory)
    kani::assume(st == Some(-1) || st == Some(-2));
    kani::assume(e.is_none());
    kani::assume(s.unwrap_or(0) >= 0 && s.unwrap_or(0) <= 2);
    let d = process_slice(root_ptr(&doc), &s, &e, &st);
    // every reported path is $[k] where k is the position of the reported node
    if let Data::Refs(v) = &d {
        let mut j = 0;
        while j < v.len() {
            let mut k = 0;
            let mut pos = 9;
            while k < 3 {
                if core::ptr::eq(v[j].inner, &a[k]) {
                    pos = k;
                }
                k += 1;
            }
            let mut exp = [0u8; 24];
            let n = spec_idx_path(b"$", pos, &mut exp);
            assert!(pos < 3 && path_is(&v[j].path, &exp, n), "a slice must report each element under its own index");
            j += 1;
        }
        kani::cover!(v.len() == 2 && st.unwrap_or(1) == -2, "step -2 selecting two elements");
        kani::cover!(v.len() == 3 && st.unwrap_or(1) < 0, "reverse slice of the whole array");
    }
    forget(d);
});

proof_fmt!(c03_wildcard_route, 12, {
    let mut sc = Scratch::new();
    sc.set(0, "b", Mini::Int(kani::any()));
    sc.set(1, "a", Mini::Null);
    let doc = sc.obj(2);
    let d = process_wildcard(Pointer::new(&doc, String::from("$[7]")));
    if let Data::Refs(v) = &d {
        assert!(v.len() == 2, "two members");
        assert!(path_is(&v[0].path, b"$[7]['b']", 9), "wildcard must report a member under its own name, appended to the parent's path");
        assert!(path_is(&v[1].path, b"$[7]['a']", 9), "wildcard must report a member under its own name, appended to the parent's path");
    } else {
        assert!(false, "wildcard on a two-member object must select two nodes");
    }
    let a = marker_array(2);
    let doc2 = Mini::Arr(a);
    let d2 = process_wildcard(Pointer::new(&doc2, String::from("$['x']")));
    if let Data::Refs(v) = &d2 {
        assert!(v.len() == 2, "two elements");
        assert!(path_is(&v[0].path, b"$['x'][0]", 9) && path_is(&v[1].path, b"$['x'][1]", 9), "wildcard must report an element under its index");
    } else {
        assert!(false, "wildcard on a two-element array must select two nodes");
    }
    kani::cover!(true, "end reached");
    forget(d);
    forget(d2);
    forget(sc);
});

// name selector spellings: the step is the member's name, not the selector text
proof_fmt!(c03_key_route_plain, 12, {
    let mut sc = Scratch::new();
    sc.set(0, "a", Mini::Int(kani::any()));
    let doc = sc.obj(1);
    let d1 = process_key(root_ptr(&doc), "a");
    let d2 = process_key(root_ptr(&doc), "'a'");
    let ok = |d: &Data<Mini>| matches!(d, Data::Ref(p) if path_is(&p.path, b"$['a']", 6));
    assert!(ok(&d1), "shorthand name must be reported as ['a']");
    assert!(ok(&d2), "single-quoted name must be reported as ['a']");
    kani::cover!(true, "end reached");
    forget(d1);
    forget(d2);
    forget(sc);
});
proof_fmt!(c03_rolec_key_route_dquote, 12, {
    let mut sc = Scratch::new();
    sc.set(0, "a", Mini::Int(kani::any()));
    let doc = sc.obj(1);
    let d3 = process_key(root_ptr(&doc), "\"a\"");
    assert!(matches!(&d3, Data::Ref(p) if path_is(&p.path, b"$['a']", 6)), "double-quoted name must be reported as ['a']");
    forget(d3);
    forget(sc);
});

// concrete-parameter complement of c03_slice_route (the symbolic version is thorough-only):
// [::-2] and [1::-1] on [m0,m1,m2]; only the element payloads are symbolic.
proof_fmt!(c03_slice_route_fixed, 12, {
    let mut sc = Scratch::new();
    sc.elems[0] = Mini::Int(kani::any());
    sc.elems[1] = Mini::Int(kani::any());
    sc.elems[2] = Mini::Int(kani::any());
    let doc = sc.arr_c(3);
    let d = process_slice(root_ptr(&doc), &None, &None, &Some(-2));
    if let Data::Refs(v) = &d {
        assert!(v.len() == 2 && path_is(&v[0].path, b"$[2]", 4) && path_is(&v[1].path, b"$[0]", 4), "[::-2] on three elements must report $[2], $[0]");
    } else {
        assert!(false, "[::-2] on three elements must select two nodes");
    }
    let d2 = process_slice(root_ptr(&doc), &Some(1), &None, &Some(-1));
    if let Data::Refs(v) = &d2 {
        assert!(v.len() == 2 && path_is(&v[0].path, b"$[1]", 4) && path_is(&v[1].path, b"$[0]", 4), "[1::-1] on three elements must report $[1], $[0]");
    } else {
        assert!(false, "[1::-1] on three elements must select two nodes");
    }
    kani::cover!(true, "end reached");
    forget(d);
    forget(d2);
    forget(sc);
});

// names with multi-byte UTF-8 scalars: exact match, no prefix / byte-length confusion
macro_rules! c01_name_unicode {
    ($name:ident, $key:expr, $exp:expr) => {
        proof!($name, 10, {
            let mut sc = Scratch::new();
            sc.set(0, "\u{e9}", Mini::Int(kani::any()));
            sc.set(1, "\u{65e5}\u{672c}", Mini::Null);
            sc.set(2, "\u{1f600}", Mini::Bool(kani::any()));
            let doc = sc.obj(3);
            let d = process_key(root_ptr(&doc), $key);
            let exp: Option<usize> = $exp;
            match &d {
                Data::Ref(p) => {
                    assert!(exp.is_some(), "name selector selected a member although no member has that name");
                    assert!(core::ptr::eq(p.inner, &sc.o.vals[exp.unwrap_or(0)]), "name selector selected the wrong member");
                }
                Data::Nothing => assert!(exp.is_none(), "name selector selected nothing although a member has that name"),
                _ => assert!(false, "name selector must yield zero or one node"),
            }
            kani::cover!(true, "end reached");
            forget(d);
            forget(sc);
        });
    };
}
c01_name_unicode!(c01_name_u2, "\u{e9}", Some(0));
c01_name_unicode!(c01_name_u3, "\u{65e5}\u{672c}", Some(1));
c01_name_unicode!(c01_name_u4, "\u{1f600}", Some(2));
c01_name_unicode!(c01_name_u3_prefix, "\u{65e5}", None);

// Record, NOT a registered check: with assumption A1 lifted (any i64 index) Kani reports the
// overflow of `idx.abs()` in process_index for i64::MIN. Before fix 47202e2 the parser let such
// an index through in singular-query segments (`$[?@[-9223372036854775808] == 1]`); since the
// fix every index that reaches the evaluator from a query string is range-checked, so the
// registered harnesses keep A1.
proof!(x_a1_lifted_index_any_i64, 4, {
    let a = marker_array(1);
    let doc = Mini::Arr(a);
    let i: i64 = kani::any();
    let d = process_index(root_ptr(&doc), &i);
    forget(d);
});

// C08: building the path step for ANY member name of one or two ASCII bytes (quotes, backslash
// and control characters included) never panics - a document may call a member `'`.
proof!(c08_key_path_any1, 6, {
    let node = Mini::Null;
    let c: u8 = kani::any();
    kani::assume(c < 0x80);
    let buf = [c];
    let p = Pointer::key(&node, String::from("$"), str_over(&buf, 1));
    kani::cover!(c == b'\'', "the member is called '");
    kani::cover!(c == b'"', "the member is called \"");
    forget(p);
});
proof!(c08_key_path_any2, 6, {
    let node = Mini::Null;
    let (c, d): (u8, u8) = (kani::any(), kani::any());
    kani::assume(c < 0x80 && d < 0x80);
    let buf = [c, d];
    let p = Pointer::key(&node, String::from("$"), str_over(&buf, 2));
    kani::cover!(c == b'\'' && d == b'\'', "the member is called ''");
    kani::cover!(c == b'\'' && d != b'\'', "leading quote only");
    forget(p);
});
proof!(c08_key_path_empty, 6, {
    let node = Mini::Null;
    let buf = [0u8; 1];
    let p = Pointer::key(&node, String::from("$"), str_over(&buf, 0));
    kani::cover!(true, "the member name is empty");
    forget(p);
});
