// Harnesses for src/query/selector.rs (cfg(kani) only): C01, C02, C03, C08, C11, C13.
#![allow(unused_imports, dead_code)]
use super::*;
use crate::verif_common::*;
use core::mem::forget;

// ---------------------------------------------------------------------------
// C11 / C08: index selector against RFC 9535 2.3.3, array length concrete,
// index any I-JSON integer.
macro_rules! c11_index {
    ($name:ident, $len:expr) => {
        proof!($name, 7, {
            let a = marker_array($len);
            let doc = Mini::Arr(a);
            let i = any_ijson();
            let d = process_index(root_ptr(&doc), &i);
            let exp = rfc_index(i, $len as i64);
            match &d {
                Data::Ref(p) => {
                    assert!(exp.is_some(), "index selected a node where RFC selects none");
                    let k = exp.unwrap_or(0);
                    assert!(core::ptr::eq(p.inner, &a[k]), "index selected the wrong element");
                }
                Data::Nothing => assert!(exp.is_none(), "index selected nothing where RFC selects a node"),
                _ => assert!(false, "index selector must yield zero or one node"),
            }
            kani::cover!($len == 0 || (exp.is_some() && i < 0), "negative index in range");
            kani::cover!(exp.is_none() && i < 0, "negative index out of range");
            kani::cover!(exp.is_none() && i > 0, "positive index out of range");
            forget(d);
        });
    };
}
c11_index!(c11_index_len0, 0);
c11_index!(c11_index_len1, 1);
c11_index!(c11_index_len3, 3);
c11_index!(c11_index_len4, 4);

// ---------------------------------------------------------------------------
// C11 / C02 / C08: slice selector against the RFC 9535 2.3.4.2.2 pseudo-code.
// start, end, step each absent or any I-JSON integer (all 8 presence
// combinations in one query); termination = unwinding assertion.
macro_rules! c11_slice {
    ($name:ident, $len:expr, $unwind:expr) => {
        proof!($name, $unwind, {
            let a = marker_array($len);
            let doc = Mini::Arr(a);
            let (s, e, st) = (any_opt_ijson(), any_opt_ijson(), any_opt_ijson());
            let d = process_slice(root_ptr(&doc), &s, &e, &st);
            let mut exp = [0usize; 8];
            let n_exp = rfc_slice(s, e, st, $len as i64, &mut exp);
            let mut got = [core::ptr::null::<Mini>(); 8];
            let n_got = nodes_of(&d, &mut got);
            assert!(n_got == n_exp, "slice selected a different number of elements than RFC 9535");
            let mut k = 0;
            while k < n_exp {
                assert!(core::ptr::eq(got[k], &a[exp[k]]), "slice element differs from RFC 9535 (index or order)");
                k += 1;
            }
            kani::cover!($len < 2 || (n_exp >= 2 && st.is_some() && st.unwrap_or(1) < 0), "negative step, several elements");
            kani::cover!($len < 3 || (n_exp >= 2 && st.unwrap_or(1) > 1), "step > 1, several elements");
            kani::cover!($len < 1 || (n_exp >= 1 && s.is_none() && st.unwrap_or(1) < 0), "negative step, start absent");
            kani::cover!(n_exp == $len && e.is_none(), "whole array, end absent");
            kani::cover!(st == Some(0), "step zero");
            forget(d);
        });
    };
}
c11_slice!(c11_slice_len0, 0, 2);
c11_slice!(c11_slice_len1, 1, 3);
c11_slice!(c11_slice_len2, 2, 4);
c11_slice!(c11_slice_len3, 3, 5);
c11_slice!(c11_slice_len4, 4, 6);
