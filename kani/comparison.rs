// harnesses for comparison (cfg(kani) only)
