// Harnesses for src/query/comparison.rs (cfg(kani) only): C04, C13 (number spellings), C15.
#![allow(unused_imports, dead_code)]
use super::*;
use crate::verif_common::*;
use core::mem::forget;

// operand generators: None = nothing (empty nodelist)
fn g_nothing(sc: &mut Scratch) -> Option<Mini> {
    None
}
fn g_null(sc: &mut Scratch) -> Option<Mini> {
    Some(Mini::Null)
}
fn g_bool(sc: &mut Scratch) -> Option<Mini> {
    Some(Mini::Bool(kani::any()))
}
/// any i64 (documents may hold integers outside the I-JSON range)
fn g_int(sc: &mut Scratch) -> Option<Mini> {
    Some(Mini::Int(kani::any()))
}
/// I-JSON integer
fn g_iint(sc: &mut Scratch) -> Option<Mini> {
    Some(Mini::Int(any_ijson()))
}
fn g_float(sc: &mut Scratch) -> Option<Mini> {
    Some(Mini::Float(any_finite_f64()))
}
/// finite float beyond the i64 range on either side (|f| >= 1e19): never equal to an integer
fn g_hugefloat(sc: &mut Scratch) -> Option<Mini> {
    let f = any_finite_f64();
    kani::assume(f >= 1e19 || f <= -1e19);
    Some(Mini::Float(f))
}
/// any string of <= 2 Unicode scalar values (thorough tier)
fn g_str(sc: &mut Scratch) -> Option<Mini> {
    Some(Mini::Str(leak_str(any_string(2))))
}
/// any string of <= 1 Unicode scalar value (1..4 UTF-8 bytes)
fn g_str1(sc: &mut Scratch) -> Option<Mini> {
    Some(Mini::Str(leak_str(any_string(1))))
}
/// any ASCII string of <= 2 bytes
fn g_ascii2(sc: &mut Scratch) -> Option<Mini> {
    Some(Mini::Str(leak_str(any_ascii(2))))
}
/// array of 0..=2 integers
fn g_arr(sc: &mut Scratch) -> Option<Mini> {
    let n: usize = kani::any();
    kani::assume(n <= 2);
    sc.elems[0] = Mini::Int(kani::any());
    sc.elems[1] = Mini::Int(kani::any());
    Some(sc.arr(n))
}
/// array [bool, null|string] - non numeric elements
fn g_arr2(sc: &mut Scratch) -> Option<Mini> {
    sc.elems[0] = Mini::Bool(kani::any());
    sc.elems[1] = Mini::Str(leak_str(any_ascii(1)));
    Some(sc.arr(2))
}
/// arrays whose elements are one int and one float (role D: finding F7)
fn g_arr_if(sc: &mut Scratch) -> Option<Mini> {
    sc.elems[0] = Mini::Int(any_ijson());
    sc.elems[1] = Mini::Float(any_finite_f64());
    Some(sc.arr(2))
}
fn g_arr_fi(sc: &mut Scratch) -> Option<Mini> {
    sc.elems[0] = Mini::Float(any_finite_f64());
    sc.elems[1] = Mini::Int(any_ijson());
    Some(sc.arr(2))
}
/// object {"a": int, "b": bool}
fn g_obj(sc: &mut Scratch) -> Option<Mini> {
    sc.set(0, "a", Mini::Int(kani::any()));
    sc.set(1, "b", Mini::Bool(kani::any()));
    Some(sc.obj(2))
}
/// object {"b": bool, "a": int} (same members, other document order)
fn g_obj_ba(sc: &mut Scratch) -> Option<Mini> {
    sc.set(0, "b", Mini::Bool(kani::any()));
    sc.set(1, "a", Mini::Int(kani::any()));
    Some(sc.obj(2))
}
/// object {"a": int}
fn g_obj1(sc: &mut Scratch) -> Option<Mini> {
    sc.set(0, "a", Mini::Int(kani::any()));
    Some(sc.obj(1))
}

// One harness per unordered operand-kind pair: eq and lt in both argument
// orders, each operand as owned value and as node reference (all four form
// combinations, concrete), against RFC 9535 2.3.5.2.2.
macro_rules! c04_forms {
    ($root:ident, $a:ident, $b:ident, $se:ident, $sl_ab:ident, $sl_ba:ident, $fa:expr, $fb:expr) => {
        let e_ab = eq(operand(&$root, &$a, $fa), operand(&$root, &$b, $fb));
        let e_ba = eq(operand(&$root, &$b, $fb), operand(&$root, &$a, $fa));
        let l_ab = lt(operand(&$root, &$a, $fa), operand(&$root, &$b, $fb));
        let l_ba = lt(operand(&$root, &$b, $fb), operand(&$root, &$a, $fa));
        assert!(e_ab == $se, "== differs from RFC 9535 equality");
        assert!(e_ba == $se, "== is not symmetric / differs from RFC 9535 equality");
        assert!(l_ab == $sl_ab, "< differs from RFC 9535 ordering");
        assert!(l_ba == $sl_ba, "< (mirrored operands) differs from RFC 9535 ordering");
    };
}
macro_rules! c04_pair {
    ($name:ident, $l:ident, $r:ident, $unwind:expr) => {
        c04_pair!($name, $l, $r, $unwind, false, true);
    };
    ($name:ident, $l:ident, $r:ident, $unwind:expr, $can_eq:expr, $can_ne:expr) => {
        proof!($name, $unwind, {
            let root = Mini::Null;
            let (mut sa, mut sb) = (Scratch::new(), Scratch::new());
            let a = $l(&mut sa);
            let b = $r(&mut sb);
            let (se, sl_ab, sl_ba) = (spec_eq(&a, &b), spec_lt(&a, &b), spec_lt(&b, &a));
            c04_forms!(root, a, b, se, sl_ab, sl_ba, true, false);
            c04_forms!(root, a, b, se, sl_ab, sl_ba, false, true);
            kani::cover!(se || !$can_eq, "operands equal");
            kani::cover!(!se || !$can_ne, "operands differ");
            forget(sa);
            forget(sb);
        });
    };
}

// nothing row
c04_pair!(c04_nothing_nothing, g_nothing, g_nothing, 3, true, false);
c04_pair!(c04_nothing_null, g_nothing, g_null, 3);
c04_pair!(c04_nothing_bool, g_nothing, g_bool, 3);
c04_pair!(c04_nothing_int, g_nothing, g_int, 3);
c04_pair!(c04_nothing_float, g_nothing, g_float, 3);
c04_pair!(c04_nothing_str, g_nothing, g_str1, 6);
c04_pair!(c04_nothing_arr, g_nothing, g_arr, 4);
c04_pair!(c04_nothing_obj, g_nothing, g_obj, 4);
// null row
c04_pair!(c04_null_null, g_null, g_null, 3, true, false);
c04_pair!(c04_null_bool, g_null, g_bool, 3);
c04_pair!(c04_null_int, g_null, g_int, 3);
c04_pair!(c04_null_float, g_null, g_float, 3);
c04_pair!(c04_null_str, g_null, g_str1, 6);
c04_pair!(c04_null_arr, g_null, g_arr, 4);
c04_pair!(c04_null_obj, g_null, g_obj, 4);
// bool row
c04_pair!(c04_bool_bool, g_bool, g_bool, 3, true, true);
c04_pair!(c04_bool_int, g_bool, g_int, 3);
c04_pair!(c04_bool_float, g_bool, g_float, 3);
c04_pair!(c04_bool_str, g_bool, g_str1, 6);
c04_pair!(c04_bool_arr, g_bool, g_arr, 4);
c04_pair!(c04_bool_obj, g_bool, g_obj, 4);
// numbers
c04_pair!(c04_int_int, g_int, g_int, 3, true, true);
c04_pair!(c04_iint_float, g_iint, g_float, 3, true, true);
c04_pair!(c04_float_float, g_float, g_float, 3, true, true);
// any i64 (also outside the I-JSON range, e.g. i64::MAX) against a float beyond the i64 range
c04_pair!(c04_int_hugefloat, g_int, g_hugefloat, 3, false, true);
c04_pair!(c04_int_str, g_int, g_str1, 6);
c04_pair!(c04_int_arr, g_int, g_arr, 4);
c04_pair!(c04_int_obj, g_int, g_obj, 4);
c04_pair!(c04_float_str, g_float, g_str1, 6);
c04_pair!(c04_float_arr, g_float, g_arr, 4);
c04_pair!(c04_float_obj, g_float, g_obj, 4);
// strings: order by Unicode scalar value (1 scalar each: UTF-8 vs UTF-16 vs scalar
// order), prefix and second-position rules (ASCII, 2 bytes each); 2 scalars each: thorough
c04_pair!(c04_str1_str1, g_str1, g_str1, 6, true, true);
c04_pair!(c04_ascii2_ascii2, g_ascii2, g_ascii2, 4, true, true);
c04_pair!(c04_str1_ascii2, g_str1, g_ascii2, 6, true, true);
c04_pair!(c04_str_str, g_str, g_str, 10, true, true);
c04_pair!(c04_str_arr, g_str1, g_arr, 6);
c04_pair!(c04_str_obj, g_str1, g_obj, 6);
// structured
c04_pair!(c04_arr_arr, g_arr, g_arr, 4, true, true);
c04_pair!(c04_arr2_arr2, g_arr2, g_arr2, 4, true, true);
c04_pair!(c04_arr_arr2, g_arr, g_arr2, 4);
c04_pair!(c04_arr_obj, g_arr, g_obj, 4);
c04_pair!(c04_obj_obj, g_obj, g_obj, 4, true, true);
c04_pair!(c04_obj_obj_ba, g_obj, g_obj_ba, 4, true, true);
c04_pair!(c04_obj_obj1, g_obj, g_obj1, 4);
// role D: arrays that mix integer and float spellings of numbers (finding F7)
c04_pair!(c04_roled_arr_if_fi, g_arr_if, g_arr_fi, 4, true, true);

// ---------------------------------------------------------------------------
// C13: integer and float spellings of one number (100, 1e2, 100.0) compare alike.
// The literal n (I-JSON integer, exactly representable) as Int and as Float
// against any node of the given kind, for == and < in both orders.
macro_rules! c13_num_spelling {
    ($name:ident, $g:ident, $unwind:expr) => {
        proof!($name, $unwind, {
            let root = Mini::Null;
            let n = any_ijson();
            let li = Some(Mini::Int(n));
            let lf = Some(Mini::Float(n as f64));
            let mut sx = Scratch::new();
            let x = $g(&mut sx);
            let e_i = eq(operand(&root, &li, true), operand(&root, &x, false));
            let e_f = eq(operand(&root, &lf, true), operand(&root, &x, false));
            let l_i = lt(operand(&root, &li, true), operand(&root, &x, false));
            let l_f = lt(operand(&root, &lf, true), operand(&root, &x, false));
            let g_i = lt(operand(&root, &x, false), operand(&root, &li, true));
            let g_f = lt(operand(&root, &x, false), operand(&root, &lf, true));
            assert!(e_i == e_f, "int and float spelling of one number must be == to the same nodes");
            assert!(l_i == l_f, "int and float spelling of one number must be < the same nodes");
            assert!(g_i == g_f, "int and float spelling of one number must be > the same nodes");
            kani::cover!(e_i, "equal");
            kani::cover!(l_i, "less");
            forget(sx);
        });
    };
}
c13_num_spelling!(c13_num_spelling_vs_int, g_iint, 3);
c13_num_spelling!(c13_num_spelling_vs_float, g_float, 3);

// ---------------------------------------------------------------------------
// C15: the comparison kernels give the same answers over serde_json::Value as
// over the second Queryable implementation (Mini) for equal scalar content.
use serde_json::Value;
fn v_state<'a>(root: &'a Value, v: &'a Value, as_value: bool) -> State<'a, Value> {
    if as_value {
        State::data(root, Data::Value(v.clone()))
    } else {
        State::data(root, Data::Ref(Pointer::new(v, String::from("p"))))
    }
}
macro_rules! c15_scalar {
    ($name:ident, $unwind:expr, |$a:ident, $b:ident| $gen:block) => {
        proof!($name, $unwind, {
            let rootm = Mini::Null;
            let rootv = Value::Null;
            let ($a, $b): ((Mini, Value), (Mini, Value)) = $gen;
            let (ma, mb) = (Some($a.0), Some($b.0));
            let (va, vb) = (core::mem::ManuallyDrop::new($a.1), core::mem::ManuallyDrop::new($b.1));
            let e_m = eq(operand(&rootm, &ma, true), operand(&rootm, &mb, false));
            let l_m = lt(operand(&rootm, &ma, true), operand(&rootm, &mb, false));
            let g_m = lt(operand(&rootm, &mb, false), operand(&rootm, &ma, true));
            let e_v = eq(v_state(&rootv, &va, true), v_state(&rootv, &vb, false));
            let l_v = lt(v_state(&rootv, &va, true), v_state(&rootv, &vb, false));
            let g_v = lt(v_state(&rootv, &vb, false), v_state(&rootv, &va, true));
            assert!(e_m == e_v, "== differs between serde_json::Value and another faithful Queryable");
            assert!(l_m == l_v, "< differs between serde_json::Value and another faithful Queryable");
            assert!(g_m == g_v, "> differs between serde_json::Value and another faithful Queryable");
            kani::cover!(!e_v, "operands not equal");
            kani::cover!(e_m == e_v && l_m == l_v, "end reached");
        });
    };
}
fn vnum_i(i: i64) -> Value {
    Value::Number(serde_json::Number::from(i))
}
fn vnum_f(f: f64) -> Value {
    let n = serde_json::Number::from_f64(f);
    kani::assume(n.is_some()); // f is finite
    Value::Number(n.unwrap())
}
c15_scalar!(c15_scalar_int_int, 3, |a, b| {
    let (x, y): (i64, i64) = (kani::any(), kani::any());
    ((Mini::Int(x), vnum_i(x)), (Mini::Int(y), vnum_i(y)))
});
c15_scalar!(c15_scalar_float_float, 3, |a, b| {
    let (x, y) = (any_finite_f64(), any_finite_f64());
    ((Mini::Float(x), vnum_f(x)), (Mini::Float(y), vnum_f(y)))
});
c15_scalar!(c15_scalar_int_float, 3, |a, b| {
    let (x, y) = (any_ijson(), any_finite_f64());
    ((Mini::Int(x), vnum_i(x)), (Mini::Float(y), vnum_f(y)))
});
c15_scalar!(c15_scalar_bool_null, 3, |a, b| {
    let x: bool = kani::any();
    ((Mini::Bool(x), Value::Bool(x)), (Mini::Null, Value::Null))
});
c15_scalar!(c15_scalar_bool_bool, 3, |a, b| {
    let (x, y): (bool, bool) = (kani::any(), kani::any());
    ((Mini::Bool(x), Value::Bool(x)), (Mini::Bool(y), Value::Bool(y)))
});
c15_scalar!(c15_scalar_str_str, 6, |a, b| {
    let mut b1 = [0u8; 4];
    let mut b2 = [0u8; 4];
    sym_scalar(&mut b1, 0, 1);
    sym_scalar(&mut b2, 0, 2);
    let (s1, s2) = (str_over(leak(b1), 1), str_over(leak(b2), 2));
    ((Mini::Str(s1), Value::String(String::from(s1))), (Mini::Str(s2), Value::String(String::from(s2))))
});
c15_scalar!(c15_scalar_str_int, 6, |a, b| {
    let mut b1 = [0u8; 4];
    sym_scalar(&mut b1, 0, 1);
    let s1 = str_over(leak(b1), 1);
    let y: i64 = kani::any();
    ((Mini::Str(s1), Value::String(String::from(s1))), (Mini::Int(y), vnum_i(y)))
});

// ---------------------------------------------------------------------------
// C04: operator dispatch in Comparison::process: != is not ==, <= is < or ==,
// > and >= are the mirrored forms; for two numbers / two strings exactly one of
// <, ==, > holds. Operands: literals (owned values) and the current node `@`.
use crate::parser::model::{Comparison, Literal};
use crate::query::Query;
fn run_cmp<A, B>(c: &MCmp<A, B>, root: &Mini, node: &Mini) -> bool {
    let r = as_cmp(c).process(State::data(root, Data::Ref(Pointer::new(node, String::from("p")))));
    let b = matches!(r.data, Data::Value(Mini::Bool(true)));
    forget(r);
    b
}
macro_rules! c04_ops {
    ($name:ident, $unwind:expr, |$x:ident, $y:ident| $gen:block, $lit:expr) => {
        proof!($name, $unwind, {
            let root = Mini::Null;
            // lhs = literal built from x, rhs = the current node y
            let ($x, $y): (Mini, Mini) = $gen;
            let (sx, sy) = (Some($x), Some($y));
            let (s_eq, s_lt, s_gt) = (spec_eq(&sx, &sy), spec_lt(&sx, &sy), spec_lt(&sy, &sx));
            let mut e = m_sqs_index(0);
            let lit = $lit;
            let mk = |tag: u8, e: &mut MSqsIndex| MCmp { tag, a: mc_lit(lit(&$x)), b: mc_sq(SQ_CURRENT, sqs_empty(e)) };
            let c_eq = mk(OP_EQ, &mut e);
            assert!(run_cmp(&c_eq, &root, &$y) == s_eq, "`==` differs from RFC 9535");
            forget(c_eq);
            let c_ne = mk(OP_NE, &mut e);
            assert!(run_cmp(&c_ne, &root, &$y) == !s_eq, "`!=` must be the negation of `==`");
            forget(c_ne);
            let c_lt = mk(OP_LT, &mut e);
            assert!(run_cmp(&c_lt, &root, &$y) == s_lt, "`<` differs from RFC 9535");
            forget(c_lt);
            let c_lte = mk(OP_LTE, &mut e);
            assert!(run_cmp(&c_lte, &root, &$y) == (s_lt || s_eq), "`<=` must be `<` or `==`");
            forget(c_lte);
            let c_gt = mk(OP_GT, &mut e);
            assert!(run_cmp(&c_gt, &root, &$y) == s_gt, "`>` must be the mirrored `<`");
            forget(c_gt);
            let c_gte = mk(OP_GTE, &mut e);
            assert!(run_cmp(&c_gte, &root, &$y) == (s_gt || s_eq), "`>=` must be `>` or `==`");
            forget(c_gte);
            kani::cover!(s_eq, "equal operands");
            kani::cover!(s_lt, "literal less than node");
            kani::cover!(s_gt, "literal greater than node");
        });
    };
}
c04_ops!(c04_ops_int_int, 4, |x, y| { (Mini::Int(any_ijson()), Mini::Int(kani::any())) }, |m: &Mini| match m { Mini::Int(i) => Literal::Int(*i), _ => Literal::Null });
c04_ops!(c04_ops_float_int, 4, |x, y| { (Mini::Float(any_finite_f64()), Mini::Int(any_ijson())) }, |m: &Mini| match m { Mini::Float(f) => Literal::Float(*f), _ => Literal::Null });
c04_ops!(c04_ops_int_float, 4, |x, y| { (Mini::Int(any_ijson()), Mini::Float(any_finite_f64())) }, |m: &Mini| match m { Mini::Int(i) => Literal::Int(*i), _ => Literal::Null });
// cross-type and nothing: only != is true
proof!(c04_ops_cross, 4, {
    let root = Mini::Null;
    let y = Mini::Bool(kani::any());
    let i = any_ijson();
    let mut e = m_sqs_index(0);
    let mk = |tag: u8, e: &mut MSqsIndex| MCmp { tag, a: mc_lit(Literal::Int(i)), b: mc_sq(SQ_CURRENT, sqs_empty(e)) };
    let c = mk(OP_EQ, &mut e);
    assert!(!run_cmp(&c, &root, &y), "int == bool must be false");
    forget(c);
    let c = mk(OP_NE, &mut e);
    assert!(run_cmp(&c, &root, &y), "int != bool must be true");
    forget(c);
    let c = mk(OP_LT, &mut e);
    assert!(!run_cmp(&c, &root, &y), "int < bool must be false");
    forget(c);
    let c = mk(OP_LTE, &mut e);
    assert!(!run_cmp(&c, &root, &y), "int <= bool must be false");
    forget(c);
    let c = mk(OP_GT, &mut e);
    assert!(!run_cmp(&c, &root, &y), "int > bool must be false");
    forget(c);
    let c = mk(OP_GTE, &mut e);
    assert!(!run_cmp(&c, &root, &y), "int >= bool must be false");
    forget(c);
    kani::cover!(true, "end reached");
});
// strings through the dispatch: literal string (1 ASCII byte) vs string node (1 scalar)
c04_ops!(c04_ops_str_str, 6, |x, y| {
    let (mut b1, mut b2) = ([0u8; 4], [0u8; 4]);
    sym_scalar(&mut b1, 0, 1);
    sym_scalar(&mut b2, 0, 1);
    (Mini::Str(str_over(leak(b1), 1)), Mini::Str(str_over(leak(b2), 1)))
}, |m: &Mini| match m { Mini::Str(s) => Literal::String(String::from(*s)), _ => Literal::Null });

// C15/C04: the literal `null` denotes the data type's `null()` (trait accessor), not its
// `Default` (Mini's default is Bool(true)): `null == @` holds exactly for a null node.
macro_rules! c15_null_lit {
    ($name:ident, $node:expr, $is_null:expr) => {
        proof!($name, 4, {
            let root = Mini::Null;
            let node: Mini = $node;
            let mut e = m_sqs_index(0);
            let c_eq = MCmp { tag: OP_EQ, a: mc_lit(Literal::Null), b: mc_sq(SQ_CURRENT, sqs_empty(&mut e)) };
            assert!(run_cmp(&c_eq, &root, &node) == $is_null, "`null == @` must hold exactly when the node is null");
            forget(c_eq);
            let c_ne = MCmp { tag: OP_NE, a: mc_lit(Literal::Null), b: mc_sq(SQ_CURRENT, sqs_empty(&mut e)) };
            assert!(run_cmp(&c_ne, &root, &node) == !$is_null, "`null != @` must be the negation of `null == @`");
            forget(c_ne);
            let c_lt = MCmp { tag: OP_LT, a: mc_lit(Literal::Null), b: mc_sq(SQ_CURRENT, sqs_empty(&mut e)) };
            assert!(!run_cmp(&c_lt, &root, &node), "`null < @` never holds");
            forget(c_lt);
            kani::cover!(true, "end reached");
        });
    };
}
c15_null_lit!(c15_null_literal_null, Mini::Null, true);
c15_null_lit!(c15_null_literal_bool, Mini::Bool(kani::any()), false);
c15_null_lit!(c15_null_literal_int, Mini::Int(kani::any()), false);

// C04/C05: a singular query with an index segment as comparison operand: `@[i] == c` on the
// current node [x0, x1]. True iff element i exists (negative i from the end) and equals c;
// an empty result is never equal to a value, and `@[i] != c` is the exact negation.
proof!(c04_sq_index_eq, 5, {
    let root = Mini::Null;
    let mut sx = Scratch::new();
    let (x0, x1, c): (i64, i64, i64) = (kani::any(), kani::any(), any_ijson());
    sx.elems[0] = Mini::Int(x0);
    sx.elems[1] = Mini::Int(x1);
    let node = sx.arr(2);
    let i: i64 = any_ijson();
    let mut seg = m_sqs_index(i);
    let c_eq = MCmp { tag: OP_EQ, a: mc_sq(SQ_CURRENT, sqs_vec(&mut seg, 1)), b: mc_lit(Literal::Int(c)) };
    let spec = match rfc_index(i, 2) {
        Some(0) => x0 == c,
        Some(_) => x1 == c,
        None => false,
    };
    assert!(run_cmp(&c_eq, &root, &node) == spec, "`@[i] == c` must hold exactly when element i exists and equals c");
    forget(c_eq);
    let c_ne = MCmp { tag: OP_NE, a: mc_sq(SQ_CURRENT, sqs_vec(&mut seg, 1)), b: mc_lit(Literal::Int(c)) };
    assert!(run_cmp(&c_ne, &root, &node) == !spec, "`@[i] != c` must be the negation of `@[i] == c`");
    forget(c_ne);
    kani::cover!(spec && i < 0, "negative index, equal element");
    kani::cover!(rfc_index(i, 2).is_none(), "no such element: empty result");
    kani::cover!(!spec && rfc_index(i, 2).is_some(), "element differs");
    forget(sx);
});

// C05 scoping: `$` inside a comparison denotes the DOCUMENT ROOT, `@` the current node.
// `$[i] == @` with root [r0, r1] and an unrelated current node x.
proof!(c05_cmp_root_index, 5, {
    let mut sr = Scratch::new();
    let (r0, r1, x): (i64, i64, i64) = (kani::any(), kani::any(), kani::any());
    sr.elems[0] = Mini::Int(r0);
    sr.elems[1] = Mini::Int(r1);
    let root = sr.arr(2);
    let node = Mini::Int(x);
    let i: i64 = any_ijson();
    let mut seg = m_sqs_index(i);
    let mut e = m_sqs_index(0);
    let c_eq = MCmp { tag: OP_EQ, a: mc_sq(SQ_ROOT, sqs_vec(&mut seg, 1)), b: mc_sq(SQ_CURRENT, sqs_empty(&mut e)) };
    let spec = match rfc_index(i, 2) {
        Some(0) => r0 == x,
        Some(_) => r1 == x,
        None => false,
    };
    assert!(run_cmp(&c_eq, &root, &node) == spec, "`$[i] == @` must compare element i of the document root with the current node");
    forget(c_eq);
    let c_lt = MCmp { tag: OP_LT, a: mc_sq(SQ_ROOT, sqs_vec(&mut seg, 1)), b: mc_sq(SQ_CURRENT, sqs_empty(&mut e)) };
    let spec_lt = match rfc_index(i, 2) {
        Some(0) => r0 < x,
        Some(_) => r1 < x,
        None => false,
    };
    assert!(run_cmp(&c_lt, &root, &node) == spec_lt, "`$[i] < @` must compare element i of the document root with the current node");
    forget(c_lt);
    kani::cover!(spec && i < 0, "negative index, equal");
    kani::cover!(rfc_index(i, 2).is_none(), "no such root element");
    kani::cover!(spec_lt, "root element less than the current node");
    forget(sr);
});
// `$.k == @` / `@ == $.k` with root {j: b, k: r0}
macro_rules! c05_cmp_root_name {
    ($name:ident, $swap:expr) => {
        proof!($name, 6, {
            let mut sr = Scratch::new();
            let (r0, x): (i64, i64) = (kani::any(), kani::any());
            sr.set(0, "j", Mini::Int(kani::any()));
            sr.set(1, "k", Mini::Int(r0));
            let root = sr.obj(2);
            let node = Mini::Int(x);
            let mut seg = m_sqs_name("k");
            let mut e = m_sqs_index(0);
            let (ta, tb) = if $swap { (SQ_CURRENT, SQ_ROOT) } else { (SQ_ROOT, SQ_CURRENT) };
            let va = if $swap { sqs_empty(&mut e) } else { sqs_vec(&mut seg, 1) };
            let vb = if $swap { sqs_vec(&mut seg, 1) } else { sqs_empty(&mut e) };
            let c_eq = MCmp { tag: OP_EQ, a: mc_sq(ta, va), b: mc_sq(tb, vb) };
            assert!(run_cmp(&c_eq, &root, &node) == (r0 == x), "`$.k == @` must compare member k of the document root with the current node");
            forget(c_eq);
            kani::cover!(r0 == x, "equal");
            kani::cover!(r0 != x, "different");
            forget(sr);
        });
    };
}
c05_cmp_root_name!(c05_cmp_root_name, false);
c05_cmp_root_name!(c05_cmp_cur_root_name, true);
