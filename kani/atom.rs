// harnesses for atom (cfg(kani) only)
