// Shared harness support: document type `Mini`, allocation/format/regex stubs,
// symbolic-input helpers and RFC 9535 reference functions.
// Mounted into the crate as `crate::verif_common` under cfg(kani) only.
#![allow(dead_code, unused_imports, unused_macros)]

use crate::query::queryable::Queryable;
use crate::query::state::{Data, Pointer, State};
use std::alloc::{Allocator, Layout};
use std::borrow::Cow;

// ---------------------------------------------------------------------------
// I-JSON integer range (RFC 9535 section 2.1): the parser's validate_range
// guarantees every index / slice parameter of a parsed query lies in it.
pub const IMAX: i64 = 9007199254740991;
pub const IMIN: i64 = -9007199254740991;

pub fn any_ijson() -> i64 {
    let v: i64 = kani::any();
    kani::assume(v >= IMIN && v <= IMAX);
    v
}

pub fn any_opt_ijson() -> Option<i64> {
    let present: bool = kani::any();
    let v = any_ijson();
    if present {
        Some(v)
    } else {
        None
    }
}

pub fn any_finite_f64() -> f64 {
    let f: f64 = kani::any();
    kani::assume(f.is_finite());
    f
}

// ---------------------------------------------------------------------------
// A2: second Queryable implementation. Children are leaked &'static, the type
// is Copy and has no drop glue (the crate drops Data<T>/State<T> values; a
// recursive destructor would be dragged into every harness otherwise).
#[derive(Clone, Copy, Debug)]
pub enum Mini {
    Null,
    Bool(bool),
    Int(i64),
    Float(f64),
    Str(&'static str),
    Arr(&'static Vec<Mini>),
    Obj(&'static MiniObj),
}

/// Typed backing store for harness-built containers. CBMC models malloc-ed
/// blocks as untyped byte arrays, and enum discriminants read back from them
/// are no longer constant-folded during symbolic execution (every variant's
/// code is then explored). Containers whose elements are *inspected* are
/// therefore built over these typed stack buffers (never freed: dealloc is a
/// no-op stub and harness values are forgotten).
pub struct Scratch {
    pub elems: [Mini; 4],
    pub o: MiniObj,
    pub vec_e: core::mem::MaybeUninit<Vec<Mini>>,
}

impl Scratch {
    pub fn new() -> Scratch {
        Scratch {
            elems: [Mini::Null; 4],
            o: MiniObj { keys: [String::new(), String::new(), String::new()], vals: [Mini::Null; 3], len: 0 },
            vec_e: core::mem::MaybeUninit::uninit(),
        }
    }
    /// array over the first `len` slots of `elems`
    pub fn arr(&mut self, len: usize) -> Mini {
        let len = opaque(len);
        unsafe {
            let v = Vec::from_raw_parts(self.elems.as_mut_ptr(), len, 4);
            self.vec_e.write(v);
            Mini::Arr(&*(self.vec_e.as_ptr()))
        }
    }
    /// array with a concrete length (for code that walks it with iterators)
    pub fn arr_c(&mut self, len: usize) -> Mini {
        unsafe {
            let v = Vec::from_raw_parts(self.elems.as_mut_ptr(), len, 4);
            self.vec_e.write(v);
            Mini::Arr(&*(self.vec_e.as_ptr()))
        }
    }
    /// object over the first `len` members set with `set`
    pub fn obj(&mut self, len: usize) -> Mini {
        self.o.len = opaque(len);
        unsafe { Mini::Obj(&*(&self.o as *const MiniObj)) }
    }
    pub fn set(&mut self, i: usize, key: &str, val: Mini) {
        self.o.keys[i] = String::from(key);
        self.o.vals[i] = val;
    }
}

/// The same value, but not a compile-time constant for CBMC's symbolic
/// execution (measured: a slice with a *constant* length over a typed buffer
/// makes element discriminants non-constant during symex and every enum arm is
/// explored - 227 s instead of 0.6 s for a one-element array comparison; with an
/// opaque length the discriminants fold). Semantically the identity.
pub fn opaque(n: usize) -> usize {
    let m: usize = kani::any();
    kani::assume(m == n);
    m
}

/// Object representation: parallel key / value arrays (a tuple array makes the
/// member discriminants unfoldable for CBMC), `len` members in document order.
#[derive(Debug)]
pub struct MiniObj {
    pub keys: [String; 3],
    pub vals: [Mini; 3],
    pub len: usize,
}
impl MiniObj {
    pub fn len(&self) -> usize {
        self.len
    }
}

pub fn leak<T>(v: T) -> &'static T {
    Box::leak(Box::new(v))
}

pub fn arr(v: Vec<Mini>) -> Mini {
    Mini::Arr(leak(v))
}


/// `Queryable` requires `Default` but says nothing about its value; a faithful data type may
/// have any default. Mini's is deliberately NOT its null, so an engine that reached for
/// `T::default()` where RFC 9535 says `null` would be seen (C15).
impl Default for Mini {
    fn default() -> Self {
        Mini::Bool(true)
    }
}

fn str_eq(a: &str, b: &str) -> bool {
    let (a, b) = (a.as_bytes(), b.as_bytes());
    if a.len() != b.len() {
        return false;
    }
    let mut i = 0;
    while i < a.len() {
        if a[i] != b[i] {
            return false;
        }
        i += 1;
    }
    true
}

// Structural equality without recursion (CBMC unwinds recursion through every
// call site, which explodes when call sites sit inside loops): three nesting
// levels are spelled out; deeper values are a reported harness limit.
macro_rules! mini_eq_level {
    ($name:ident, $inner:ident) => {
        fn $name(x: &Mini, y: &Mini) -> bool {
            match (x, y) {
                (Mini::Null, Mini::Null) => true,
                (Mini::Bool(a), Mini::Bool(b)) => a == b,
                (Mini::Int(a), Mini::Int(b)) => a == b,
                (Mini::Float(a), Mini::Float(b)) => a == b,
                (Mini::Str(a), Mini::Str(b)) => str_eq(a, b),
                (Mini::Arr(a), Mini::Arr(b)) => {
                    if a.len() != b.len() {
                        return false;
                    }
                    let mut i = 0;
                    while i < a.len() {
                        if !$inner(&a[i], &b[i]) {
                            return false;
                        }
                        i += 1;
                    }
                    true
                }
                (Mini::Obj(a), Mini::Obj(b)) => {
                    // JSON objects are unordered for equality (as serde_json's Map).
                    if a.len() != b.len() {
                        return false;
                    }
                    let mut i = 0;
                    while i < a.len() {
                        let mut found = false;
                        let mut j = 0;
                        while j < b.len() {
                            if str_eq(&a.keys[i], &b.keys[j]) && $inner(&a.vals[i], &b.vals[j]) {
                                found = true;
                            }
                            j += 1;
                        }
                        if !found {
                            return false;
                        }
                        i += 1;
                    }
                    true
                }
                _ => false,
            }
        }
    };
}
fn mini_eq_0(x: &Mini, y: &Mini) -> bool {
    match (x, y) {
        (Mini::Null, Mini::Null) => true,
        (Mini::Bool(a), Mini::Bool(b)) => a == b,
        (Mini::Int(a), Mini::Int(b)) => a == b,
        (Mini::Float(a), Mini::Float(b)) => a == b,
        (Mini::Str(a), Mini::Str(b)) => str_eq(a, b),
        (Mini::Arr(_), Mini::Arr(_)) | (Mini::Obj(_), Mini::Obj(_)) => {
            kani::assert(false, "VERIF-LIMIT document nested deeper than Mini::eq supports");
            false
        }
        _ => false,
    }
}
mini_eq_level!(mini_eq_1, mini_eq_0);
mini_eq_level!(mini_eq_2, mini_eq_1);

impl PartialEq for Mini {
    // one container level (containers of scalars); deeper values are a reported
    // harness limit. Kept shallow because wherever CBMC cannot fold an operand's
    // discriminant every arm of every level is explored.
    fn eq(&self, other: &Self) -> bool {
        mini_eq_1(self, other)
    }
}

impl From<&str> for Mini {
    fn from(s: &str) -> Self {
        Mini::Str(Box::leak(s.to_string().into_boxed_str()))
    }
}
impl From<String> for Mini {
    fn from(s: String) -> Self {
        Mini::Str(Box::leak(s.into_boxed_str()))
    }
}
impl From<bool> for Mini {
    fn from(b: bool) -> Self {
        Mini::Bool(b)
    }
}
impl From<i64> for Mini {
    fn from(i: i64) -> Self {
        Mini::Int(i)
    }
}
impl From<f64> for Mini {
    fn from(f: f64) -> Self {
        Mini::Float(f)
    }
}
impl From<Vec<Mini>> for Mini {
    fn from(v: Vec<Mini>) -> Self {
        Mini::Arr(leak(v))
    }
}

impl Queryable for Mini {
    fn get(&self, key: &str) -> Option<&Self> {
        // same quote handling contract as the crate's impl for serde_json::Value
        let key = if key.starts_with("'") && key.ends_with("'") {
            key.trim_matches(|c| c == '\'')
        } else if key.starts_with('"') && key.ends_with('"') {
            key.trim_matches(|c| c == '"')
        } else {
            key
        };
        match self {
            Mini::Obj(members) => {
                // last duplicate wins is irrelevant: harness objects have distinct names
                let mut i = 0;
                while i < members.len() {
                    if str_eq(&members.keys[i], key) {
                        return Some(&members.vals[i]);
                    }
                    i += 1;
                }
                None
            }
            _ => None,
        }
    }
    fn as_array(&self) -> Option<&Vec<Self>> {
        match self {
            Mini::Arr(v) => Some(*v),
            _ => None,
        }
    }
    fn as_object(&self) -> Option<Vec<(&String, &Self)>> {
        match self {
            Mini::Obj(v) => {
                // index-based (folds with the opaque lengths used for harness objects)
                let mut out: Vec<(&String, &Self)> = Vec::with_capacity(v.len());
                let mut i = 0;
                while i < v.len() {
                    out.push((&v.keys[i], &v.vals[i]));
                    i += 1;
                }
                Some(out)
            }
            _ => None,
        }
    }
    fn as_str(&self) -> Option<&str> {
        match self {
            Mini::Str(s) => Some(*s),
            _ => None,
        }
    }
    fn as_i64(&self) -> Option<i64> {
        match self {
            Mini::Int(i) => Some(*i),
            _ => None,
        }
    }
    fn as_f64(&self) -> Option<f64> {
        // Strict accessors: an integer is visible through as_i64 only (serde_json also
        // answers as_f64 for integers; the trait does not require it and the engine has an
        // explicit `as_i64() as f64` fallback - a strict view exercises that fallback).
        match self {
            Mini::Float(f) => Some(*f),
            _ => None,
        }
    }
    fn as_bool(&self) -> Option<bool> {
        match self {
            Mini::Bool(b) => Some(*b),
            _ => None,
        }
    }
    fn null() -> Self {
        Mini::Null
    }
    /// Observation point for the generic argument plumbing (test_function::custom):
    /// reports how many argument values reached the data type's extension hook.
    fn extension_custom(_name: &str, args: Vec<Cow<Self>>) -> Self {
        let n = args.len();
        core::mem::forget(args);
        Mini::Int(n as i64)
    }
}

// ---------------------------------------------------------------------------
// S1/S2: constant-size allocation regime. Every heap block handed out has a
// *concrete* size (a size class), so CBMC never sees an object of symbolic
// size. Growth and shrinking happen in place inside the block; a request
// above the largest class is a reported harness limit (VERIF-LIMIT), never
// silently truncated. Deallocation is a no-op (memory is not reused).
pub const K_ELEMS: usize = 4;
pub const K_BYTES: usize = 32;
pub const MAX_BLOCK: usize = 256;

fn const_cap<T>() -> usize {
    if core::mem::size_of::<T>() <= 1 {
        K_BYTES
    } else {
        K_ELEMS
    }
}

unsafe fn block(size: usize, align: usize) -> *mut u8 {
    // concrete-size malloc per branch
    let l = |n: usize| Layout::from_size_align_unchecked(n, align);
    if size <= 32 {
        std::alloc::alloc(l(32))
    } else if size <= 64 {
        std::alloc::alloc(l(64))
    } else if size <= 128 {
        std::alloc::alloc(l(128))
    } else {
        kani::assert(size <= MAX_BLOCK, "VERIF-LIMIT allocation above the largest size class");
        std::alloc::alloc(l(MAX_BLOCK))
    }
}

pub fn stub_alloc(
    layout: Layout,
    zeroed: bool,
) -> Result<core::ptr::NonNull<[u8]>, std::alloc::AllocError> {
    let size = layout.size();
    if size == 0 {
        return Ok(core::ptr::NonNull::slice_from_raw_parts(layout.dangling_ptr(), 0));
    }
    unsafe {
        let raw = block(size, layout.align());
        if zeroed {
            let mut i = 0;
            while i < size {
                *raw.add(i) = 0;
                i += 1;
            }
        }
        Ok(core::ptr::NonNull::slice_from_raw_parts(core::ptr::NonNull::new_unchecked(raw), size))
    }
}

pub fn stub_dealloc(_ptr: core::ptr::NonNull<u8>, _layout: Layout) {}

pub fn stub_grow(
    _g: &std::alloc::Global,
    ptr: core::ptr::NonNull<u8>,
    old: Layout,
    new: Layout,
    zeroed: bool,
) -> Result<core::ptr::NonNull<[u8]>, std::alloc::AllocError> {
    if old.size() == 0 {
        return stub_alloc(new, zeroed);
    }
    // in place: legal while the new size stays inside the block's size class
    let class = |n: usize| {
        if n <= 32 {
            32
        } else if n <= 64 {
            64
        } else if n <= 128 {
            128
        } else {
            MAX_BLOCK
        }
    };
    kani::assert(new.size() <= MAX_BLOCK, "VERIF-LIMIT allocation above the largest size class");
    kani::assert(!zeroed, "VERIF-LIMIT zeroed growth");
    let (oc, nc) = (class(old.size()), class(new.size()));
    if oc == nc {
        return Ok(core::ptr::NonNull::slice_from_raw_parts(ptr, new.size()));
    }
    // move to the larger class: the whole old block is copied with a *concrete*
    // size (bytes beyond old.size() are don't-care), so no symbolic-size memcpy arises
    unsafe {
        let raw = block(new.size(), new.align());
        if oc == 32 {
            core::ptr::copy_nonoverlapping(ptr.as_ptr(), raw, 32);
        } else if oc == 64 {
            core::ptr::copy_nonoverlapping(ptr.as_ptr(), raw, 64);
        } else {
            core::ptr::copy_nonoverlapping(ptr.as_ptr(), raw, 128);
        }
        Ok(core::ptr::NonNull::slice_from_raw_parts(core::ptr::NonNull::new_unchecked(raw), new.size()))
    }
}

pub fn stub_shrink(
    _g: &std::alloc::Global,
    ptr: core::ptr::NonNull<u8>,
    _old: Layout,
    new: Layout,
    _zeroed: bool,
) -> Result<core::ptr::NonNull<[u8]>, std::alloc::AllocError> {
    if new.size() == 0 {
        return Ok(core::ptr::NonNull::slice_from_raw_parts(new.dangling_ptr(), 0));
    }
    Ok(core::ptr::NonNull::slice_from_raw_parts(ptr, new.size()))
}

/// K = 8 variant (thorough-tier harnesses on longer arrays)
pub fn stub_with_capacity_k8<T>(capacity: usize) -> Vec<T> {
    stub_with_capacity_in_k8::<T, std::alloc::Global>(capacity, std::alloc::Global)
}
pub fn stub_with_capacity_in_k8<T, A: Allocator>(capacity: usize, alloc: A) -> Vec<T, A> {
    let sz = core::mem::size_of::<T>();
    if sz == 0 {
        return Vec::new_in(alloc);
    }
    let k = if sz <= 1 { K_BYTES } else if 8 * sz <= MAX_BLOCK { 8 } else { MAX_BLOCK / sz };
    assert!(capacity <= (isize::MAX as usize) / sz, "Vec::with_capacity: capacity overflow (panics in the real allocator path)");
    kani::assert(capacity <= k, "VERIF-LIMIT capacity above constant K");
    let layout = Layout::array::<T>(k).unwrap();
    let ptr = alloc.allocate(layout).unwrap().as_ptr() as *mut T;
    unsafe { Vec::from_raw_parts_in(ptr, 0, k, alloc) }
}

pub fn stub_with_capacity<T>(capacity: usize) -> Vec<T> {
    stub_with_capacity_in::<T, std::alloc::Global>(capacity, std::alloc::Global)
}

pub fn stub_with_capacity_in<T, A: Allocator>(capacity: usize, alloc: A) -> Vec<T, A> {
    let k = const_cap::<T>();
    if core::mem::size_of::<T>() == 0 {
        return Vec::new_in(alloc);
    }
    // the real Vec::with_capacity panics ("capacity overflow") when the byte size exceeds isize::MAX
    assert!(capacity <= (isize::MAX as usize) / core::mem::size_of::<T>(), "Vec::with_capacity: capacity overflow (panics in the real allocator path)");
    kani::assert(capacity <= k, "VERIF-LIMIT capacity above constant K");
    let layout = Layout::array::<T>(k).unwrap();
    let ptr = alloc.allocate(layout).unwrap().as_ptr() as *mut T;
    unsafe { Vec::from_raw_parts_in(ptr, 0, k, alloc) }
}

// S6: core's chunked char counter is only used for strings of >= 32 bytes; within
// the harness bounds it must be unreachable (asserted, not assumed).
pub fn stub_do_count_chars(_s: &str) -> usize {
    kani::assert(false, "VERIF-LIMIT string of 32 bytes or more reached core::str::count::do_count_chars");
    0
}

// S3: path text irrelevant; non-empty so that the crate's "empty path means
// internal pointer" convention is preserved.
pub fn stub_format(_args: core::fmt::Arguments<'_>) -> String {
    String::from("p")
}

// S4: regex engine cannot be compiled by Kani.
pub fn stub_regex_new(_re: &str) -> Result<regex::Regex, regex::Error> {
    Err(regex::Error::Syntax(String::new()))
}

/// Proof harness without path text (S1-S4 in force).
macro_rules! proof {
    ($name:ident, $unwind:expr, $body:block) => {
        #[kani::proof]
        #[kani::unwind($unwind)]
        #[kani::stub(alloc::vec::Vec::with_capacity, crate::verif_common::stub_with_capacity)]
        #[kani::stub(alloc::vec::Vec::with_capacity_in, crate::verif_common::stub_with_capacity_in)]
        #[kani::stub(alloc::alloc::Global::alloc_impl_runtime, crate::verif_common::stub_alloc)]
        #[kani::stub(alloc::alloc::Global::deallocate_impl_runtime, crate::verif_common::stub_dealloc)]
        #[kani::stub(alloc::alloc::Global::grow_impl_runtime, crate::verif_common::stub_grow)]
        #[kani::stub(alloc::alloc::Global::shrink_impl_runtime, crate::verif_common::stub_shrink)]
        #[kani::stub(alloc::fmt::format, crate::verif_common::stub_format)]
        #[kani::stub(::regex::Regex::new, crate::verif_common::stub_regex_new)]
        #[kani::stub(core::str::count::do_count_chars, crate::verif_common::stub_do_count_chars)]
        fn $name() $body
    };
}
pub(crate) use proof;

/// Proof harness with capacity K = 8 (same stubs otherwise).
macro_rules! proof_k8 {
    ($name:ident, $unwind:expr, $body:block) => {
        #[kani::proof]
        #[kani::unwind($unwind)]
        #[kani::stub(alloc::vec::Vec::with_capacity, crate::verif_common::stub_with_capacity_k8)]
        #[kani::stub(alloc::vec::Vec::with_capacity_in, crate::verif_common::stub_with_capacity_in_k8)]
        #[kani::stub(alloc::alloc::Global::alloc_impl_runtime, crate::verif_common::stub_alloc)]
        #[kani::stub(alloc::alloc::Global::deallocate_impl_runtime, crate::verif_common::stub_dealloc)]
        #[kani::stub(alloc::alloc::Global::grow_impl_runtime, crate::verif_common::stub_grow)]
        #[kani::stub(alloc::alloc::Global::shrink_impl_runtime, crate::verif_common::stub_shrink)]
        #[kani::stub(alloc::fmt::format, crate::verif_common::stub_format)]
        #[kani::stub(::regex::Regex::new, crate::verif_common::stub_regex_new)]
        #[kani::stub(core::str::count::do_count_chars, crate::verif_common::stub_do_count_chars)]
        fn $name() $body
    };
}
pub(crate) use proof_k8;

/// Proof harness with the real core::fmt (S1, S2, S4 only).
macro_rules! proof_fmt {
    ($name:ident, $unwind:expr, $body:block) => {
        #[kani::proof]
        #[kani::unwind($unwind)]
        #[kani::stub(alloc::vec::Vec::with_capacity, crate::verif_common::stub_with_capacity)]
        #[kani::stub(alloc::vec::Vec::with_capacity_in, crate::verif_common::stub_with_capacity_in)]
        #[kani::stub(alloc::alloc::Global::alloc_impl_runtime, crate::verif_common::stub_alloc)]
        #[kani::stub(alloc::alloc::Global::deallocate_impl_runtime, crate::verif_common::stub_dealloc)]
        #[kani::stub(alloc::alloc::Global::grow_impl_runtime, crate::verif_common::stub_grow)]
        #[kani::stub(alloc::alloc::Global::shrink_impl_runtime, crate::verif_common::stub_shrink)]
        #[kani::stub(::regex::Regex::new, crate::verif_common::stub_regex_new)]
        #[kani::stub(core::str::count::do_count_chars, crate::verif_common::stub_do_count_chars)]
        fn $name() $body
    };
}
pub(crate) use proof_fmt;

// ---------------------------------------------------------------------------
// helpers

pub fn root_ptr<'a, T: Queryable>(doc: &'a T) -> Pointer<'a, T> {
    Pointer::new(doc, String::from("$"))
}

/// array [0, 1, .., n-1] of Int markers; n concrete.
pub fn marker_array(n: usize) -> &'static Vec<Mini> {
    let mut v: Vec<Mini> = Vec::with_capacity(n);
    let mut i = 0;
    while i < n {
        v.push(Mini::Int(i as i64));
        i += 1;
    }
    leak(v)
}

/// Flatten a Data into (node pointer) list, asserting it is a nodelist.
/// Returns number of nodes written into `out`.
pub fn nodes_of<'a, T: Queryable>(d: &Data<'a, T>, out: &mut [*const T; 8]) -> usize {
    match d {
        Data::Nothing => 0,
        Data::Ref(p) => {
            out[0] = p.inner as *const T;
            1
        }
        Data::Refs(v) => {
            kani::assert(v.len() <= 8, "VERIF-LIMIT nodelist longer than 8");
            let mut i = 0;
            while i < v.len() && i < 8 {
                out[i] = v[i].inner as *const T;
                i += 1;
            }
            v.len()
        }
        Data::Value(_) => {
            kani::assert(false, "selector produced a Value instead of a nodelist");
            0
        }
    }
}

// RFC 9535 section 2.3.4.2.2, transcribed literally.
pub fn rfc_normalize(i: i64, len: i64) -> i64 {
    if i >= 0 {
        i
    } else {
        len + i
    }
}

pub fn rfc_bounds(start: i64, end: i64, step: i64, len: i64) -> (i64, i64) {
    let n_start = rfc_normalize(start, len);
    let n_end = rfc_normalize(end, len);
    if step >= 0 {
        let lower = core::cmp::min(core::cmp::max(n_start, 0), len);
        let upper = core::cmp::min(core::cmp::max(n_end, 0), len);
        (lower, upper)
    } else {
        let upper = core::cmp::min(core::cmp::max(n_start, -1), len - 1);
        let lower = core::cmp::min(core::cmp::max(n_end, -1), len - 1);
        (lower, upper)
    }
}

/// RFC slice: writes selected indices into out, returns the count.
pub fn rfc_slice(
    start: Option<i64>,
    end: Option<i64>,
    step: Option<i64>,
    len: i64,
    out: &mut [usize; 8],
) -> usize {
    let step = step.unwrap_or(1);
    let mut n = 0usize;
    if step == 0 {
        return 0;
    }
    let (start, end) = if step >= 0 {
        (start.unwrap_or(0), end.unwrap_or(len))
    } else {
        (start.unwrap_or(len - 1), end.unwrap_or(-len - 1))
    };
    let (lower, upper) = rfc_bounds(start, end, step, len);
    if step > 0 {
        let mut i = lower;
        while i < upper {
            out[n] = i as usize;
            n += 1;
            i += step;
        }
    } else {
        let mut i = upper;
        while lower < i {
            out[n] = i as usize;
            n += 1;
            i += step;
        }
    }
    n
}

/// RFC index selector: Some(position) or None.
pub fn rfc_index(i: i64, len: i64) -> Option<usize> {
    let n = rfc_normalize(i, len);
    if n >= 0 && n < len {
        Some(n as usize)
    } else {
        None
    }
}

// ---------------------------------------------------------------------------
// symbolic strings

/// Symbolic string of 0..=max Unicode scalar values (each any valid char).
pub fn any_string(max: usize) -> String {
    let mut s = String::with_capacity(4 * max);
    let n: usize = kani::any();
    kani::assume(n <= max);
    let mut i = 0;
    while i < max {
        let c: char = kani::any();
        if i < n {
            s.push(c);
        }
        i += 1;
    }
    s
}

/// Symbolic ASCII string of 0..=max bytes.
pub fn any_ascii(max: usize) -> String {
    let mut s = String::with_capacity(max);
    let n: usize = kani::any();
    kani::assume(n <= max);
    let mut i = 0;
    while i < max {
        let b: u8 = kani::any();
        kani::assume(b < 0x80);
        if i < n {
            s.push(b as char);
        }
        i += 1;
    }
    s
}

pub fn leak_str(s: String) -> &'static str {
    Box::leak(s.into_boxed_str())
}

// ---------------------------------------------------------------------------
// RFC 9535 section 2.3.5.2.2 comparison semantics (reference)

use core::cmp::Ordering;

/// exact comparison of an i64 with a finite f64 by mathematical value
pub fn cmp_int_float(i: i64, f: f64) -> Ordering {
    // 2^63 as f64 is exact
    if f >= 9223372036854775808.0 {
        return Ordering::Less;
    }
    if f < -9223372036854775808.0 {
        return Ordering::Greater;
    }
    let t = f.trunc();
    let ti = t as i64; // exact: |t| <= 2^63 and t integral, t < 2^63
    if i < ti {
        Ordering::Less
    } else if i > ti {
        Ordering::Greater
    } else if f > t {
        Ordering::Less
    } else if f < t {
        Ordering::Greater
    } else {
        Ordering::Equal
    }
}

pub fn is_num(m: &Mini) -> bool {
    matches!(m, Mini::Int(_) | Mini::Float(_))
}

pub fn spec_num_cmp(a: &Mini, b: &Mini) -> Ordering {
    match (a, b) {
        (Mini::Int(x), Mini::Int(y)) => x.cmp(y),
        (Mini::Float(x), Mini::Float(y)) => {
            if x < y {
                Ordering::Less
            } else if x > y {
                Ordering::Greater
            } else {
                Ordering::Equal
            }
        }
        (Mini::Int(x), Mini::Float(y)) => cmp_int_float(*x, *y),
        (Mini::Float(x), Mini::Int(y)) => cmp_int_float(*y, *x).reverse(),
        _ => Ordering::Equal,
    }
}

/// strings ordered by Unicode scalar value (decoded), not by encoded bytes
pub fn spec_str_cmp(a: &str, b: &str) -> Ordering {
    let mut ia = a.chars();
    let mut ib = b.chars();
    loop {
        match (ia.next(), ib.next()) {
            (None, None) => return Ordering::Equal,
            (None, Some(_)) => return Ordering::Less,
            (Some(_), None) => return Ordering::Greater,
            (Some(x), Some(y)) => {
                let (x, y) = (x as u32, y as u32);
                if x < y {
                    return Ordering::Less;
                }
                if x > y {
                    return Ordering::Greater;
                }
            }
        }
    }
}

fn spec_scalar_eq(a: &Mini, b: &Mini) -> Option<bool> {
    if is_num(a) && is_num(b) {
        return Some(spec_num_cmp(a, b) == Ordering::Equal);
    }
    match (a, b) {
        (Mini::Null, Mini::Null) => Some(true),
        (Mini::Bool(x), Mini::Bool(y)) => Some(x == y),
        (Mini::Str(x), Mini::Str(y)) => Some(spec_str_cmp(x, y) == Ordering::Equal),
        (Mini::Arr(_), Mini::Arr(_)) | (Mini::Obj(_), Mini::Obj(_)) => None,
        _ => Some(false),
    }
}
fn spec_json_eq_0(a: &Mini, b: &Mini) -> bool {
    match spec_scalar_eq(a, b) {
        Some(r) => r,
        None => {
            kani::assert(false, "VERIF-LIMIT document nested deeper than the reference equality supports");
            false
        }
    }
}
macro_rules! spec_eq_level {
    ($name:ident, $inner:ident) => {
        fn $name(a: &Mini, b: &Mini) -> bool {
            if let Some(r) = spec_scalar_eq(a, b) {
                return r;
            }
            match (a, b) {
                (Mini::Arr(x), Mini::Arr(y)) => {
                    if x.len() != y.len() {
                        return false;
                    }
                    let mut i = 0;
                    while i < x.len() {
                        if !$inner(&x[i], &y[i]) {
                            return false;
                        }
                        i += 1;
                    }
                    true
                }
                (Mini::Obj(x), Mini::Obj(y)) => {
                    if x.len() != y.len() {
                        return false;
                    }
                    let mut i = 0;
                    while i < x.len() {
                        let mut found = false;
                        let mut j = 0;
                        while j < y.len() {
                            if str_eq(&x.keys[i], &y.keys[j]) && $inner(&x.vals[i], &y.vals[j]) {
                                found = true;
                            }
                            j += 1;
                        }
                        if !found {
                            return false;
                        }
                        i += 1;
                    }
                    true
                }
                _ => false,
            }
        }
    };
}
spec_eq_level!(spec_json_eq_1, spec_json_eq_0);
spec_eq_level!(spec_json_eq_2, spec_json_eq_1);
pub fn spec_json_eq(a: &Mini, b: &Mini) -> bool {
    spec_json_eq_1(a, b)
}

/// None = the empty nodelist ("nothing")
pub fn spec_eq(a: &Option<Mini>, b: &Option<Mini>) -> bool {
    match (a, b) {
        (None, None) => true,
        (Some(x), Some(y)) => spec_json_eq(x, y),
        _ => false,
    }
}

pub fn spec_lt(a: &Option<Mini>, b: &Option<Mini>) -> bool {
    match (a, b) {
        (Some(x), Some(y)) => {
            if is_num(x) && is_num(y) {
                spec_num_cmp(x, y) == Ordering::Less
            } else if let (Mini::Str(s), Mini::Str(t)) = (x, y) {
                spec_str_cmp(s, t) == Ordering::Less
            } else {
                false
            }
        }
        _ => false,
    }
}

/// Operand in one of the evaluator's forms: owned value or node reference.
pub fn operand<'a>(root: &'a Mini, v: &'a Option<Mini>, as_value: bool) -> State<'a, Mini> {
    match v {
        None => State::nothing(root),
        Some(m) => {
            if as_value {
                State::data(root, Data::Value(*m))
            } else {
                State::data(root, Data::Ref(Pointer::new(m, String::from("p"))))
            }
        }
    }
}

/// Symbolic string of exactly n <= max scalars; returns (string, n).
pub fn any_string_n(max: usize) -> (String, usize) {
    let mut s = String::with_capacity(4 * max);
    let n: usize = kani::any();
    kani::assume(n <= max);
    let mut i = 0;
    while i < max {
        let c: char = kani::any();
        if i < n {
            s.push(c);
        }
        i += 1;
    }
    (s, n)
}

/// Box over typed (stack) storage: see Scratch. Never dropped by harnesses.
pub fn tbox<T>(slot: &mut T) -> Box<T> {
    unsafe { Box::from_raw(slot as *mut T) }
}

/// Vec over typed (stack) storage with an opaque length.
pub fn tvec<T>(buf: &mut [T], len: usize) -> Vec<T> {
    let cap = buf.len();
    unsafe { Vec::from_raw_parts(buf.as_mut_ptr(), opaque(len), cap) }
}

/// Vec over typed (stack) storage with a *concrete* length. Empirical rule
/// (measured, see DESIGN): containers the code under test walks with slice
/// iterators fold best with a concrete length; containers it indexes (`a[i]`)
/// fold best with an opaque one.
pub fn cvec<T>(buf: &mut [T], len: usize) -> Vec<T> {
    let cap = buf.len();
    unsafe { Vec::from_raw_parts(buf.as_mut_ptr(), len, cap) }
}

/// nodelist of the first k elements of `nodes` (k concrete), as the evaluator's Data
pub fn refs_of<'a>(nodes: &'a [Mini; 4], buf: &mut [core::mem::MaybeUninit<Pointer<'a, Mini>>; 4], k: usize) -> Data<'a, Mini> {
    let mut i = 0;
    while i < k {
        buf[i].write(Pointer::new(&nodes[i], String::from("p")));
        i += 1;
    }
    let v = unsafe { Vec::from_raw_parts(buf.as_mut_ptr() as *mut Pointer<'a, Mini>, k, 4) };
    Data::Refs(v)
}

/// Fill buf[at..at+w] with an arbitrary valid UTF-8 encoding of one scalar of width w.
pub fn sym_scalar(buf: &mut [u8], at: usize, w: usize) {
    let b0: u8 = kani::any();
    let b1: u8 = kani::any();
    let b2: u8 = kani::any();
    let b3: u8 = kani::any();
    let cont = |b: u8| b >= 0x80 && b <= 0xBF;
    if w == 1 {
        kani::assume(b0 < 0x80);
        buf[at] = b0;
    } else if w == 2 {
        kani::assume(b0 >= 0xC2 && b0 <= 0xDF && cont(b1));
        buf[at] = b0;
        buf[at + 1] = b1;
    } else if w == 3 {
        kani::assume(b0 >= 0xE0 && b0 <= 0xEF && cont(b1) && cont(b2));
        kani::assume(b0 != 0xE0 || b1 >= 0xA0);
        kani::assume(b0 != 0xED || b1 <= 0x9F);
        buf[at] = b0;
        buf[at + 1] = b1;
        buf[at + 2] = b2;
    } else {
        kani::assume(b0 >= 0xF0 && b0 <= 0xF4 && cont(b1) && cont(b2) && cont(b3));
        kani::assume(b0 != 0xF0 || b1 >= 0x90);
        kani::assume(b0 != 0xF4 || b1 <= 0x8F);
        buf[at] = b0;
        buf[at + 1] = b1;
        buf[at + 2] = b2;
        buf[at + 3] = b3;
    }
}

/// &'static str over a typed stack buffer (harness values are never freed / outlived).
pub fn str_over(buf: &[u8], len: usize) -> &'static str {
    unsafe { core::mem::transmute::<&str, &'static str>(core::str::from_utf8_unchecked(core::slice::from_raw_parts(buf.as_ptr(), len))) }
}

// ---------------------------------------------------------------------------
// AST construction. CBMC constant-folds enum discriminants only up to two
// levels of enum-in-enum nesting (enums are struct{tag, union}); at three
// levels (Comparison -> Comparable -> Literal) every arm is explored. Under
// cfg(kani) the AST enums are repr(u8), whose layout is defined (RFC 2195:
// a union of repr(C) structs, each starting with the u8 tag, fields in
// declaration order), so the outermost level is written as a repr(C) mirror
// struct and viewed through a pointer cast. `ast_layout_sanity` checks the tags.
use crate::parser::model::{Comparable, Comparison, Filter, FilterAtom, Literal, Segment, Selector, Test};

use crate::parser::model::{FnArg, SingularQuery, SingularQuerySegment, TestFunction};
pub const CMPB_SIZE: usize = core::mem::size_of::<Comparable>();
pub const SQS_SIZE: usize = core::mem::size_of::<SingularQuerySegment>();
const _: () = assert!(core::mem::align_of::<Comparable>() == 8);

/// Comparable::Literal(lit)
#[repr(C)]
pub struct MCLit {
    pub tag: u8,
    pub lit: Literal,
    pub pad: [u8; CMPB_SIZE - 8 - core::mem::size_of::<Literal>()],
}
/// Comparable::SingularQuery(SingularQuery::{Current,Root}(segments))
#[repr(C)]
pub struct MCSq {
    pub tag: u8,
    pub _a0: [u64; 0],
    pub sq_tag: u8,
    pub _a: [u64; 0],
    pub segs: Vec<SingularQuerySegment>,
    pub pad: [u8; CMPB_SIZE - 16 - core::mem::size_of::<Vec<SingularQuerySegment>>()],
}
/// Comparable::Function(tf) with a real TestFunction
#[repr(C)]
pub struct MCFn {
    pub tag: u8,
    pub tf: TestFunction,
    pub pad: [u8; CMPB_SIZE - 8 - core::mem::size_of::<TestFunction>()],
}
pub fn mc_lit(lit: Literal) -> MCLit {
    MCLit { tag: 0, lit, pad: [0; CMPB_SIZE - 8 - core::mem::size_of::<Literal>()] }
}
pub const SQ_CURRENT: u8 = 0;
pub const SQ_ROOT: u8 = 1;
pub fn mc_sq(sq_tag: u8, segs: Vec<SingularQuerySegment>) -> MCSq {
    MCSq { tag: 2, _a0: [], sq_tag, _a: [], segs, pad: [0; CMPB_SIZE - 16 - core::mem::size_of::<Vec<SingularQuerySegment>>()] }
}
pub fn mc_fn(tf: TestFunction) -> MCFn {
    MCFn { tag: 1, tf, pad: [0; CMPB_SIZE - 8 - core::mem::size_of::<TestFunction>()] }
}
/// SingularQuerySegment mirrors
#[repr(C)]
pub struct MSqsName {
    pub tag: u8,
    pub name: String,
}
#[repr(C)]
pub struct MSqsIndex {
    pub tag: u8,
    pub idx: i64,
    pub pad: [u8; SQS_SIZE - 16],
}
const _: () = assert!(core::mem::size_of::<MSqsName>() == SQS_SIZE);
pub fn m_sqs_name(s: &str) -> MSqsName {
    MSqsName { tag: 1, name: String::from(s) }
}
pub fn m_sqs_index(i: i64) -> MSqsIndex {
    MSqsIndex { tag: 0, idx: i, pad: [0; SQS_SIZE - 16] }
}
pub fn sqs_vec<M>(first: &mut M, count: usize) -> Vec<SingularQuerySegment> {
    unsafe { Vec::from_raw_parts(first as *mut M as *mut SingularQuerySegment, count, count) }
}
/// the empty segment list, as a Vec over typed storage (Vec::new()'s dangling
/// pointer is read under a false guard by unrolled iterators)
pub fn sqs_empty(slot: &mut MSqsIndex) -> Vec<SingularQuerySegment> {
    unsafe { Vec::from_raw_parts(slot as *mut MSqsIndex as *mut SingularQuerySegment, 0, 1) }
}

/// Comparison::<op>(a, b): A and B are padded Comparable mirrors
#[repr(C)]
pub struct MCmp<A, B> {
    pub tag: u8,
    pub a: A,
    pub b: B,
}
pub const OP_EQ: u8 = 0;
pub const OP_NE: u8 = 1;
pub const OP_GT: u8 = 2;
pub const OP_GTE: u8 = 3;
pub const OP_LT: u8 = 4;
pub const OP_LTE: u8 = 5;
const _: () = assert!(core::mem::size_of::<MCmp<MCLit, MCSq>>() == core::mem::size_of::<Comparison>());
const _: () = assert!(core::mem::size_of::<MCLit>() == CMPB_SIZE && core::mem::size_of::<MCSq>() == CMPB_SIZE && core::mem::size_of::<MCFn>() == CMPB_SIZE);

pub fn as_cmp<A, B>(r: &MCmp<A, B>) -> &Comparison {
    unsafe { &*(r as *const MCmp<A, B> as *const Comparison) }
}
pub fn cmp_box<A, B>(r: &mut MCmp<A, B>) -> Box<Comparison> {
    unsafe { Box::from_raw(r as *mut MCmp<A, B> as *mut Comparison) }
}
pub const PAD_LIT: Comparable = Comparable::Literal(Literal::Null);
pub const PADF: Filter = Filter::Or(Vec::new());
pub const PAD_SEG: Segment = Segment::Selector(Selector::Wildcard);
pub const PAD_SEL: Selector = Selector::Wildcard;

// ---- mirrors for segments / selectors (see CmpRepr) --------------------------
pub const SEG_DESC: u8 = 0;
pub const SEG_SEL: u8 = 1;
pub const SEG_SELS: u8 = 2;
pub const SEL_NAME: u8 = 0;
pub const SEL_WILD: u8 = 1;
pub const SEL_INDEX: u8 = 2;
pub const SEL_SLICE: u8 = 3;
pub const SEL_FILTER: u8 = 4;
pub const SEG_SIZE: usize = core::mem::size_of::<Segment>();
pub const SEL_SIZE: usize = core::mem::size_of::<Selector>();
const _: () = assert!(core::mem::align_of::<Segment>() == 8 && core::mem::align_of::<Selector>() == 8);
const _: () = assert!(SEG_SIZE == SEL_SIZE + 8);

/// Selector mirror, padded to the size of Selector: tag, then up to three 16-byte
/// fields (Name: String = 24 bytes is covered by w0..; see the typed views below).
#[repr(C)]
pub struct MSelName {
    pub tag: u8,
    pub name: String,
    pub pad: [u8; SEL_SIZE - 8 - core::mem::size_of::<String>()],
}
#[repr(C)]
pub struct MSelIndex {
    pub tag: u8,
    pub idx: i64,
    pub pad: [u8; SEL_SIZE - 16],
}
#[repr(C)]
pub struct MSelWild {
    pub tag: u8,
    pub _a: [u64; 0],
    pub pad: [u8; SEL_SIZE - 8],
}
#[repr(C)]
pub struct MSelSlice {
    pub tag: u8,
    pub start: Option<i64>,
    pub end: Option<i64>,
    pub step: Option<i64>,
    pub pad: [u8; SEL_SIZE - 8 - 3 * core::mem::size_of::<Option<i64>>()],
}
#[repr(C)]
pub struct MSelFilter {
    pub tag: u8,
    pub f: Filter,
    pub pad: [u8; SEL_SIZE - 8 - core::mem::size_of::<Filter>()],
}
/// Segment::Selector(<selector mirror>) - S must be one of the padded mirrors above
#[repr(C)]
pub struct MSeg<S> {
    pub tag: u8,
    pub sel: S,
}
pub fn m_name(s: &str) -> MSeg<MSelName> {
    MSeg { tag: SEG_SEL, sel: MSelName { tag: SEL_NAME, name: String::from(s), pad: [0; SEL_SIZE - 8 - core::mem::size_of::<String>()] } }
}
pub fn m_index(i: i64) -> MSeg<MSelIndex> {
    MSeg { tag: SEG_SEL, sel: MSelIndex { tag: SEL_INDEX, idx: i, pad: [0; SEL_SIZE - 16] } }
}
pub fn m_wild() -> MSeg<MSelWild> {
    MSeg { tag: SEG_SEL, sel: MSelWild { tag: SEL_WILD, _a: [], pad: [0; SEL_SIZE - 8] } }
}
pub fn m_slice(a: Option<i64>, b: Option<i64>, c: Option<i64>) -> MSeg<MSelSlice> {
    MSeg { tag: SEG_SEL, sel: MSelSlice { tag: SEL_SLICE, start: a, end: b, step: c, pad: [0; SEL_SIZE - 8 - 3 * core::mem::size_of::<Option<i64>>()] } }
}
pub fn m_filter(f: Filter) -> MSeg<MSelFilter> {
    MSeg { tag: SEG_SEL, sel: MSelFilter { tag: SEL_FILTER, f, pad: [0; SEL_SIZE - 8 - core::mem::size_of::<Filter>()] } }
}
/// view `count` consecutive segment mirrors starting at `first` as Vec<Segment>
pub fn seg_vec<M>(first: &mut M, count: usize) -> Vec<Segment> {
    unsafe { Vec::from_raw_parts(first as *mut M as *mut Segment, count, count) }
}
pub fn as_seg<M>(m: &M) -> &Segment {
    unsafe { &*(m as *const M as *const Segment) }
}

/// view `count` consecutive selector mirrors starting at `first` as Vec<Selector>
pub fn sel_vec<M>(first: &mut M, count: usize) -> Vec<Selector> {
    unsafe { Vec::from_raw_parts(first as *mut M as *mut Selector, count, count) }
}
pub fn ms_index(i: i64) -> MSelIndex {
    MSelIndex { tag: SEL_INDEX, idx: i, pad: [0; SEL_SIZE - 16] }
}
pub fn ms_wild() -> MSelWild {
    MSelWild { tag: SEL_WILD, _a: [], pad: [0; SEL_SIZE - 8] }
}
pub fn ms_slice(a: Option<i64>, b: Option<i64>, c: Option<i64>) -> MSelSlice {
    MSelSlice { tag: SEL_SLICE, start: a, end: b, step: c, pad: [0; SEL_SIZE - 8 - 3 * core::mem::size_of::<Option<i64>>()] }
}
pub fn ms_name(s: &str) -> MSelName {
    MSelName { tag: SEL_NAME, name: String::from(s), pad: [0; SEL_SIZE - 8 - core::mem::size_of::<String>()] }
}
#[repr(C)]
pub struct Pair<A, B> {
    pub a: A,
    pub b: B,
}
#[repr(C)]
pub struct Triple<A, B, C> {
    pub a: A,
    pub b: B,
    pub c: C,
}
/// Segment::Selectors(vec) / Segment::Descendant(box) mirrors
#[repr(C)]
pub struct MSegSels {
    pub tag: u8,
    pub sels: Vec<Selector>,
    pub pad: [u8; SEG_SIZE - 8 - core::mem::size_of::<Vec<Selector>>()],
}
pub fn m_sels(v: Vec<Selector>) -> MSegSels {
    MSegSels { tag: SEG_SELS, sels: v, pad: [0; SEG_SIZE - 8 - core::mem::size_of::<Vec<Selector>>()] }
}
#[repr(C)]
pub struct MSegDesc {
    pub tag: u8,
    pub inner: Box<Segment>,
    pub pad: [u8; SEG_SIZE - 16],
}
pub fn m_desc<M>(inner: &mut M) -> MSegDesc {
    MSegDesc { tag: SEG_DESC, inner: unsafe { Box::from_raw(inner as *mut M as *mut Segment) }, pad: [0; SEG_SIZE - 16] }
}

// ---- FnArg mirrors (padded to the size of FnArg) -------------------------------
pub const FNARG_SIZE: usize = core::mem::size_of::<FnArg>();
#[repr(C)]
pub struct MFnLit {
    pub tag: u8,
    pub lit: Literal,
    pub pad: [u8; FNARG_SIZE - 8 - core::mem::size_of::<Literal>()],
}
#[repr(C)]
pub struct MFnTest {
    pub tag: u8,
    pub t: Box<Test>,
    pub pad: [u8; FNARG_SIZE - 16],
}
#[repr(C)]
pub struct MFnFilter {
    pub tag: u8,
    pub f: Filter,
    pub pad: [u8; FNARG_SIZE - 8 - core::mem::size_of::<Filter>()],
}
pub fn mfn_lit(lit: Literal) -> MFnLit {
    MFnLit { tag: 0, lit, pad: [0; FNARG_SIZE - 8 - core::mem::size_of::<Literal>()] }
}
pub fn mfn_test(slot: &mut Test) -> MFnTest {
    MFnTest { tag: 1, t: tbox(slot), pad: [0; FNARG_SIZE - 16] }
}
pub fn mfn_filter(f: Filter) -> MFnFilter {
    MFnFilter { tag: 2, f, pad: [0; FNARG_SIZE - 8 - core::mem::size_of::<Filter>()] }
}
pub fn fnarg_vec<M>(first: &mut M, count: usize) -> Vec<FnArg> {
    unsafe { Vec::from_raw_parts(first as *mut M as *mut FnArg, count, count) }
}
pub fn as_fnarg<M>(m: &M) -> &FnArg {
    unsafe { &*(m as *const M as *const FnArg) }
}
