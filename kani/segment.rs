// Harnesses for src/query/segment.rs (cfg(kani) only): C01/C02 (multi-selector segments, descendant segments).
#![allow(unused_imports, dead_code, unused_mut)]
use super::*;
use crate::verif_common::*;
use core::mem::{forget, MaybeUninit};

// ---- multi-selector segment on ONE input node: selectors contribute in the
// order written, duplicates kept (RFC 9535 2.5.1.2). Array [0,1,2].
proof!(c02_selectors_idx_idx, 6, {
    let mut sc = Scratch::new();
    sc.elems[0] = Mini::Int(0);
    sc.elems[1] = Mini::Int(1);
    sc.elems[2] = Mini::Int(2);
    let doc = sc.arr(3);
    let (i, j): (i64, i64) = (kani::any(), kani::any());
    kani::assume(i >= -4 && i <= 4 && j >= -4 && j <= 4);
    let mut sels = Pair { a: ms_index(i), b: ms_index(j) };
    let v = sel_vec(&mut sels, 2);
    let st = process_selectors(State::root(&doc), &v);
    let (ei, ej) = (rfc_index(i, 3), rfc_index(j, 3));
    let mut got = [core::ptr::null::<Mini>(); 8];
    let n = nodes_of(&st.data, &mut got);
    let mut k = 0;
    if let Some(x) = ei {
        assert!(k < n && core::ptr::eq(got[k], &sc.elems[x]), "first selector's node must come first");
        k += 1;
    }
    if let Some(y) = ej {
        assert!(k < n && core::ptr::eq(got[k], &sc.elems[y]), "second selector's node must follow (duplicates kept)");
        k += 1;
    }
    assert!(n == k, "multi-selector segment returned extra nodes");
    kani::cover!(ei.is_some() && ei == ej, "same element selected twice");
    kani::cover!(ei.is_some() && ej.is_none(), "second selector selects nothing");
    kani::cover!(ei.is_none() && ej.is_some(), "first selector selects nothing");
    forget(st);
    forget(v);
    forget(sc);
});

// [slice, index] and [index, slice] on one node: a multi-node contribution next to a single one
macro_rules! c02_selectors_slice_idx {
    ($name:ident, $slice_first:expr) => {
        proof!($name, 6, {
            let mut sc = Scratch::new();
            sc.elems[0] = Mini::Int(0);
            sc.elems[1] = Mini::Int(1);
            sc.elems[2] = Mini::Int(2);
            let doc = sc.arr(3);
            let j: i64 = kani::any();
            kani::assume(j >= -4 && j <= 4);
            let (s, e): (i64, i64) = (kani::any(), kani::any());
            kani::assume(s >= 0 && s <= 3 && e >= 0 && e <= 3);
            let mut sels1 = Pair { a: ms_slice(Some(s), Some(e), None), b: ms_index(j) };
            let mut sels2 = Pair { a: ms_index(j), b: ms_slice(Some(s), Some(e), None) };
            let v = if $slice_first { sel_vec(&mut sels1, 2) } else { sel_vec(&mut sels2, 2) };
            let st = process_selectors(State::root(&doc), &v);
            let mut exp = [0usize; 8];
            let mut ne = 0;
            if !$slice_first {
                if let Some(y) = rfc_index(j, 3) {
                    exp[ne] = y;
                    ne += 1;
                }
            }
            let mut x = s;
            while x < e {
                exp[ne] = x as usize;
                ne += 1;
                x += 1;
            }
            if $slice_first {
                if let Some(y) = rfc_index(j, 3) {
                    exp[ne] = y;
                    ne += 1;
                }
            }
            let mut got = [core::ptr::null::<Mini>(); 8];
            let n = nodes_of(&st.data, &mut got);
            assert!(n == ne, "multi-selector segment: wrong number of nodes");
            let mut k = 0;
            while k < ne {
                assert!(core::ptr::eq(got[k], &sc.elems[exp[k]]), "multi-selector segment: selectors must contribute in the order written");
                k += 1;
            }
            kani::cover!(ne == 4, "three from the slice plus one from the index");
            kani::cover!(ne == 1, "only one selector contributes");
            forget(st);
            forget(v);
            forget(sc);
            forget(sels1);
            forget(sels2);
        });
    };
}
c02_selectors_slice_idx!(c02_selectors_slice_idx, true);
c02_selectors_slice_idx!(c02_selectors_idx_slice, false);

// ---- multi-selector segment on TWO input nodes (role B, finding F2): RFC order is
// node-major: a0[i], a0[j], a1[i], a1[j].
proof!(c02_roleb_selectors_two_inputs, 6, {
    let (mut s0, mut s1) = (Scratch::new(), Scratch::new());
    s0.elems[0] = Mini::Int(0);
    s0.elems[1] = Mini::Int(1);
    s1.elems[0] = Mini::Int(2);
    s1.elems[1] = Mini::Int(3);
    let docs = [s0.arr(2), s1.arr(2), Mini::Null, Mini::Null];
    let root = Mini::Null;
    let mut b: [MaybeUninit<Pointer<Mini>>; 4] = [MaybeUninit::uninit(), MaybeUninit::uninit(), MaybeUninit::uninit(), MaybeUninit::uninit()];
    let input = State::data(&root, refs_of(&docs, &mut b, 2));
    let mut sels = Pair { a: ms_index(0), b: ms_index(1) };
    let v = sel_vec(&mut sels, 2);
    let st = process_selectors(input, &v);
    let mut got = [core::ptr::null::<Mini>(); 8];
    let n = nodes_of(&st.data, &mut got);
    assert!(n == 4, "two selectors on two arrays of two must give four nodes");
    assert!(core::ptr::eq(got[0], &s0.elems[0]) && core::ptr::eq(got[1], &s0.elems[1]) && core::ptr::eq(got[2], &s1.elems[0]) && core::ptr::eq(got[3], &s1.elems[1]),
        "everything produced from an earlier input node must precede everything from a later one");
    forget(st);
    forget(v);
    forget(s0);
    forget(s1);
});

// ---- descendant segment: pre-order (node before its descendants, children in
// container order) expansion, then the selector. Concrete tree shapes.
// tree A: [[x, y], z]   tree B: {"a": [x], "b": {"c": y}}
proof!(c02_descendant_tree_a, 4, {
    let (mut s_in, mut s_out) = (Scratch::new(), Scratch::new());
    s_in.elems[0] = Mini::Int(kani::any());
    s_in.elems[1] = Mini::Null;
    s_out.elems[0] = s_in.arr_c(2);
    s_out.elems[1] = Mini::Bool(kani::any());
    let doc = s_out.arr_c(2);
    let d = process_descendant(root_ptr(&doc));
    let mut got = [core::ptr::null::<Mini>(); 8];
    let n = nodes_of(&d, &mut got);
    // descendants-or-self that are containers, pre-order: doc, doc[0]
    assert!(n == 2, "descendant expansion of [[x,y],z] must visit exactly the two containers");
    assert!(core::ptr::eq(got[0], &doc) && core::ptr::eq(got[1], &s_out.elems[0]), "a node must be visited before its descendants");
    kani::cover!(true, "end reached");
    forget(d);
    forget(s_in);
    forget(s_out);
});
proof!(c02_descendant_wildcard_tree_a, 4, {
    // $..[*] on [[x, y], z] = doc[0], doc[1], doc[0][0], doc[0][1]
    let (mut s_in, mut s_out) = (Scratch::new(), Scratch::new());
    s_in.elems[0] = Mini::Int(kani::any());
    s_in.elems[1] = Mini::Null;
    s_out.elems[0] = s_in.arr_c(2);
    s_out.elems[1] = Mini::Bool(kani::any());
    let doc = s_out.arr_c(2);
    let mut w = m_wild();
    let seg = m_desc(&mut w);
    let st = as_seg(&seg).process(State::root(&doc));
    let mut got = [core::ptr::null::<Mini>(); 8];
    let n = nodes_of(&st.data, &mut got);
    assert!(n == 4, "$..[*] on [[x,y],z] must select four nodes");
    assert!(core::ptr::eq(got[0], &s_out.elems[0]) && core::ptr::eq(got[1], &s_out.elems[1]) && core::ptr::eq(got[2], &s_in.elems[0]) && core::ptr::eq(got[3], &s_in.elems[1]),
        "$..[*]: children of an earlier visited node precede those of a later one, in container order");
    kani::cover!(true, "end reached");
    forget(st);
    forget(seg);
    forget(s_in);
    forget(s_out);
});
proof!(c02_descendant_index_tree_c, 8, {
    // $..[i] on [[a, b], [c]]: visited containers in pre-order: doc, doc[0], doc[1]
    let (mut s0, mut s1, mut s_out) = (Scratch::new(), Scratch::new(), Scratch::new());
    s0.elems[0] = Mini::Int(kani::any());
    s0.elems[1] = Mini::Null;
    s1.elems[0] = Mini::Bool(kani::any());
    s_out.elems[0] = s0.arr_c(2);
    s_out.elems[1] = s1.arr_c(1);
    let doc = s_out.arr_c(2);
    let i: i64 = kani::any();
    kani::assume(i >= -3 && i <= 2);
    let mut ix = m_index(i);
    let seg = m_desc(&mut ix);
    let st = as_seg(&seg).process(State::root(&doc));
    let mut got = [core::ptr::null::<Mini>(); 8];
    let n = nodes_of(&st.data, &mut got);
    let mut k = 0;
    if let Some(x) = rfc_index(i, 2) {
        assert!(k < n && core::ptr::eq(got[k], &s_out.elems[x]), "$..[i]: the root array's element comes first");
        k += 1;
    }
    if let Some(x) = rfc_index(i, 2) {
        assert!(k < n && core::ptr::eq(got[k], &s0.elems[x]), "$..[i]: then the first nested array's element");
        k += 1;
    }
    if let Some(x) = rfc_index(i, 1) {
        assert!(k < n && core::ptr::eq(got[k], &s1.elems[x]), "$..[i]: then the second nested array's element");
        k += 1;
    }
    assert!(n == k, "$..[i] returned extra nodes");
    kani::cover!(n == 3, "all three arrays contribute");
    kani::cover!(n == 2, "only the longer arrays contribute");
    kani::cover!(n == 0, "index out of range everywhere");
    forget(st);
    forget(seg);
    forget(s0);
    forget(s1);
    forget(s_out);
});
proof!(c02_descendant_tree_b, 8, {
    // {"a": [x], "b": {"c": y}}: containers in pre-order: doc, doc.a, doc.b
    let (mut sa, mut sb, mut so) = (Scratch::new(), Scratch::new(), Scratch::new());
    sa.elems[0] = Mini::Int(kani::any());
    sb.set(0, "c", Mini::Null);
    so.set(0, "a", sa.arr_c(1));
    so.set(1, "b", sb.obj(1));
    let doc = so.obj(2);
    let mut w = m_wild();
    let seg = m_desc(&mut w);
    let st = as_seg(&seg).process(State::root(&doc));
    let mut got = [core::ptr::null::<Mini>(); 8];
    let n = nodes_of(&st.data, &mut got);
    assert!(n == 4, "$..* on (a:[x], b:(c:y)) must select four nodes");
    assert!(core::ptr::eq(got[0], &so.o.vals[0]) && core::ptr::eq(got[1], &so.o.vals[1]) && core::ptr::eq(got[2], &sa.elems[0]) && core::ptr::eq(got[3], &sb.o.vals[0]),
        "$..*: members in document order, a node's children before later nodes' children");
    kani::cover!(true, "end reached");
    forget(st);
    forget(seg);
    forget(sa);
    forget(sb);
    forget(so);
});

// [*, j] on one node: every element, then element j again (duplicate kept, selector order)
proof!(c02_selectors_wild_idx, 6, {
    let mut sc = Scratch::new();
    sc.elems[0] = Mini::Int(0);
    sc.elems[1] = Mini::Int(1);
    let doc = sc.arr(2);
    let j: i64 = kani::any();
    kani::assume(j >= -3 && j <= 3);
    let mut sels = Pair { a: ms_wild(), b: ms_index(j) };
    let v = sel_vec(&mut sels, 2);
    let st = process_selectors(State::root(&doc), &v);
    let mut got = [core::ptr::null::<Mini>(); 8];
    let n = nodes_of(&st.data, &mut got);
    let ej = rfc_index(j, 2);
    assert!(n == 2 + if ej.is_some() { 1 } else { 0 }, "[*, j] must return every element plus element j again");
    assert!(core::ptr::eq(got[0], &sc.elems[0]) && core::ptr::eq(got[1], &sc.elems[1]), "[*, j]: the wildcard's nodes come first, in index order");
    if let Some(y) = ej {
        assert!(core::ptr::eq(got[2], &sc.elems[y]), "[*, j]: then element j (a duplicate of an earlier node)");
    }
    kani::cover!(ej.is_some(), "index in range");
    kani::cover!(ej.is_none(), "index out of range");
    forget(st);
    forget(v);
    forget(sc);
});

// three selectors [i, j, k] on one node
proof!(c02_selectors_three, 6, {
    let mut sc = Scratch::new();
    sc.elems[0] = Mini::Int(0);
    sc.elems[1] = Mini::Int(1);
    let doc = sc.arr(2);
    let (i, j, k): (i64, i64, i64) = (kani::any(), kani::any(), kani::any());
    kani::assume(i >= -3 && i <= 2 && j >= -3 && j <= 2 && k >= -3 && k <= 2);
    let mut sels = Triple { a: ms_index(i), b: ms_index(j), c: ms_index(k) };
    let v = sel_vec(&mut sels, 3);
    let st = process_selectors(State::root(&doc), &v);
    let mut got = [core::ptr::null::<Mini>(); 8];
    let n = nodes_of(&st.data, &mut got);
    let mut m = 0;
    if let Some(x) = rfc_index(i, 2) {
        assert!(m < n && core::ptr::eq(got[m], &sc.elems[x]), "[i,j,k]: first selector's node first");
        m += 1;
    }
    if let Some(x) = rfc_index(j, 2) {
        assert!(m < n && core::ptr::eq(got[m], &sc.elems[x]), "[i,j,k]: second selector's node second");
        m += 1;
    }
    if let Some(x) = rfc_index(k, 2) {
        assert!(m < n && core::ptr::eq(got[m], &sc.elems[x]), "[i,j,k]: third selector's node third");
        m += 1;
    }
    assert!(n == m, "[i,j,k] returned extra nodes");
    kani::cover!(n == 3, "all three select");
    kani::cover!(n == 1, "only one selects");
    forget(st);
    forget(v);
    forget(sc);
});

// [i, j, *] on one node of 3 elements: the two indexed nodes first (as far as they select),
// then every element in index order - also when the later selector yields MORE nodes than
// everything accumulated before it.
proof_k8!(c02_selectors_idx_idx_wild, 6, {
    let mut sc = Scratch::new();
    sc.elems[0] = Mini::Int(0);
    sc.elems[1] = Mini::Int(1);
    sc.elems[2] = Mini::Int(2);
    let doc = sc.arr(3);
    let (i, j): (i64, i64) = (kani::any(), kani::any());
    kani::assume(i >= -4 && i <= 3 && j >= -4 && j <= 3);
    let mut sels = Triple { a: ms_index(i), b: ms_index(j), c: ms_wild() };
    let v = sel_vec(&mut sels, 3);
    let st = process_selectors(State::root(&doc), &v);
    let mut got = [core::ptr::null::<Mini>(); 8];
    let n = nodes_of(&st.data, &mut got);
    let mut m = 0;
    if let Some(x) = rfc_index(i, 3) {
        assert!(m < n && core::ptr::eq(got[m], &sc.elems[x]), "[i,j,*]: first selector's node first");
        m += 1;
    }
    if let Some(x) = rfc_index(j, 3) {
        assert!(m < n && core::ptr::eq(got[m], &sc.elems[x]), "[i,j,*]: second selector's node second");
        m += 1;
    }
    assert!(n == m + 3, "[i,j,*] must return the indexed nodes plus every element");
    assert!(
        core::ptr::eq(got[m], &sc.elems[0]) && core::ptr::eq(got[m + 1], &sc.elems[1]) && core::ptr::eq(got[m + 2], &sc.elems[2]),
        "[i,j,*]: the wildcard's nodes come last, in index order"
    );
    kani::cover!(m == 2, "both indices select (accumulated nodelist of two, then three more)");
    kani::cover!(m == 0, "no index selects");
    forget(st);
    forget(v);
    forget(sc);
});

// the same with concrete indices: [0, 1, *] and [-1, 0, *]. NOT registered: subsumed by the harness
// above on the unchanged tree (62 s / 48 s), and on seed C02-m3 they run out of 16 GB just like it.
macro_rules! c02_selectors_cidx_wild {
    ($name:ident, $i:expr, $j:expr) => {
        proof_k8!($name, 6, {
            let mut sc = Scratch::new();
            sc.elems[0] = Mini::Int(kani::any());
            sc.elems[1] = Mini::Int(kani::any());
            sc.elems[2] = Mini::Int(kani::any());
            let doc = sc.arr_c(3);
            let mut sels = Triple { a: ms_index($i), b: ms_index($j), c: ms_wild() };
            let v = sel_vec(&mut sels, 3);
            let st = process_selectors(State::root(&doc), &v);
            let mut got = [core::ptr::null::<Mini>(); 8];
            let n = nodes_of(&st.data, &mut got);
            let (x, y) = (rfc_index($i, 3).unwrap_or(0), rfc_index($j, 3).unwrap_or(0));
            assert!(n == 5, "[i,j,*] with both indices in range must return five nodes");
            assert!(core::ptr::eq(got[0], &sc.elems[x]) && core::ptr::eq(got[1], &sc.elems[y]), "[i,j,*]: the indexed nodes come first, in the order written");
            assert!(
                core::ptr::eq(got[2], &sc.elems[0]) && core::ptr::eq(got[3], &sc.elems[1]) && core::ptr::eq(got[4], &sc.elems[2]),
                "[i,j,*]: the wildcard's nodes come last, in index order"
            );
            kani::cover!(true, "end reached");
            forget(st);
            forget(v);
            forget(sc);
        });
    };
}
c02_selectors_cidx_wild!(c02_selectors_0_1_wild, 0, 1);
c02_selectors_cidx_wild!(c02_selectors_m1_0_wild, -1, 0);
