// harnesses for segment (cfg(kani) only)
