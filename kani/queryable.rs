// Harnesses for src/query/queryable.rs (cfg(kani) only): C14 (extension functions on serde_json::Value), C15.
#![allow(unused_imports, dead_code)]
use super::*;
use crate::verif_common::*;
use core::mem::{forget, ManuallyDrop, MaybeUninit};
use serde_json::Value;
use std::borrow::Cow;

/// serde_json scalar from a Mini proto (Null, Bool, Int, 1-byte Str)
fn scalar_value(m: &Mini) -> Value {
    match m {
        Mini::Null => Value::Null,
        Mini::Bool(b) => Value::Bool(*b),
        Mini::Int(i) => Value::Number(serde_json::Number::from(*i)),
        Mini::Str(s) => Value::String(String::from(*s)),
        _ => {
            kani::assert(false, "VERIF-LIMIT scalar_value on a container");
            Value::Null
        }
    }
}

fn any_str1() -> Mini {
    let b: u8 = kani::any();
    kani::assume(b < 0x80);
    Mini::Str(str_over(leak([b]), 1))
}

// Flat construction with concrete lengths (measured: serde_json values reached through
// by-value moves of structs, opaque lengths or padded buffers make CBMC explore Value's
// BTreeMap arms and recursive drop glue; flat locals with exact concrete lengths fold).
fn call(name: &str, a: &Value, b: &Value) -> Value {
    let mut args: [Cow<Value>; 2] = [Cow::Borrowed(a), Cow::Borrowed(b)];
    let v = cvec(&mut args, 2);
    let r = <Value as Queryable>::extension_custom(name, v);
    forget(args);
    r
}
fn call1(name: &str, a: &Value) -> Value {
    let mut args: [Cow<Value>; 1] = [Cow::Borrowed(a)];
    let v = cvec(&mut args, 1);
    let r = <Value as Queryable>::extension_custom(name, v);
    forget(args);
    r
}
fn as_b(v: &Value) -> Option<bool> {
    match v {
        Value::Bool(b) => Some(*b),
        _ => None,
    }
}
fn vint(i: i64) -> Value {
    Value::Number(serde_json::Number::from(i))
}

// ---- in / nin ------------------------------------------------------------------
// list = [int i0, string s1 (one ASCII byte), [int i2]] truncated to $n elements (concrete $n);
// x = int | string | null | [int]; all payloads symbolic.
macro_rules! c14_in {
    ($name:ident, $n:expr, $xkind:expr) => {
        proof!($name, 5, {
            let (i0, i2, xi): (i64, i64, i64) = (kani::any(), kani::any(), kani::any());
            let (c1, xc): (u8, u8) = (kani::any(), kani::any());
            kani::assume(c1 < 0x80 && xc < 0x80);
            let (b1, bx) = ([c1], [xc]);
            let mut inner: [Value; 1] = [Value::Null];
            inner[0] = vint(i2);
            let mut vals: [Value; 3] = [Value::Null, Value::Null, Value::Null];
            vals[0] = vint(i0);
            vals[1] = Value::String(String::from(str_over(&b1, 1)));
            vals[2] = Value::Array(cvec(&mut inner, 1));
            let lv = Value::Array(cvec(&mut vals, $n));
            let mut xin: [Value; 1] = [Value::Null];
            xin[0] = vint(xi);
            // $xkind: 0 int, 1 string, 2 null, 3 nested [int]
            let x: Value = if $xkind == 0 {
                vint(xi)
            } else if $xkind == 1 {
                Value::String(String::from(str_over(&bx, 1)))
            } else if $xkind == 2 {
                Value::Null
            } else {
                Value::Array(cvec(&mut xin, 1))
            };
            let m0 = $xkind == 0 && xi == i0;
            let m1 = $xkind == 1 && xc == c1;
            let m2 = $xkind == 3 && xi == i2;
            let spec = ($n > 0 && m0) || ($n > 1 && m1) || ($n > 2 && m2);
            let r_in = call("in", &x, &lv);
            let r_nin = call("nin", &x, &lv);
            assert!(as_b(&r_in) == Some(spec), "in(x, L) differs from membership of x in L");
            assert!(as_b(&r_nin) == Some(!spec), "nin(x, L) is not the negation of in(x, L)");
            kani::cover!(spec || $n == 0 || $xkind == 2 || ($xkind == 1 && $n < 2) || ($xkind == 3 && $n < 3), "x is a member");
            kani::cover!(!spec, "x is not a member");
            forget(r_in);
            forget(r_nin);
            forget(x);
            forget(lv);
            forget(vals);
            forget(inner);
            forget(xin);
        });
    };
}
c14_in!(c14_in_int_n0, 0, 0);
c14_in!(c14_in_int_n1, 1, 0);
c14_in!(c14_in_int_n3, 3, 0);
c14_in!(c14_in_str_n1, 1, 1);
c14_in!(c14_in_str_n2, 2, 1);
c14_in!(c14_in_str_n3, 3, 1);
c14_in!(c14_in_null_n3, 3, 2);
c14_in!(c14_in_nested_n2, 2, 3);
c14_in!(c14_in_nested_n3, 3, 3);

// ---- any_of / none_of / subset_of: int arrays A ($na) and B ($nb), any i64 values -----
macro_rules! c14_sets {
    ($name:ident, $na:expr, $nb:expr) => {
        proof!($name, 5, {
            let a: [i64; 2] = [kani::any(), kani::any()];
            let b: [i64; 3] = [kani::any(), kani::any(), kani::any()];
            let mut av: [Value; 2] = [Value::Null, Value::Null];
            av[0] = vint(a[0]);
            av[1] = vint(a[1]);
            let mut bv: [Value; 3] = [Value::Null, Value::Null, Value::Null];
            bv[0] = vint(b[0]);
            bv[1] = vint(b[1]);
            bv[2] = vint(b[2]);
            let aa = Value::Array(cvec(&mut av, $na));
            let bb = Value::Array(cvec(&mut bv, $nb));
            let mut any = false;
            let mut all = true;
            let mut i = 0;
            while i < $na {
                let mut found = false;
                let mut j = 0;
                while j < $nb {
                    if a[i] == b[j] {
                        found = true;
                    }
                    j += 1;
                }
                if found {
                    any = true;
                } else {
                    all = false;
                }
                i += 1;
            }
            let r_any = call("any_of", &aa, &bb);
            let r_none = call("none_of", &aa, &bb);
            let r_sub = call("subset_of", &aa, &bb);
            assert!(as_b(&r_any) == Some(any), "any_of(A, B) differs from 'A and B share an element'");
            assert!(as_b(&r_none) == Some(!any), "none_of(A, B) is not the negation of any_of(A, B)");
            assert!(as_b(&r_sub) == Some(all), "subset_of(A, B) differs from 'every element of A occurs in B'");
            kani::cover!(all, "subset");
            kani::cover!(!all || $na == 0, "not a subset");
            kani::cover!(any || $na == 0 || $nb == 0, "overlap");
            forget(r_any);
            forget(r_none);
            forget(r_sub);
            forget(aa);
            forget(bb);
            forget(av);
            forget(bv);
        });
    };
}
c14_sets!(c14_sets_0_0, 0, 0);
c14_sets!(c14_sets_0_2, 0, 2);
c14_sets!(c14_sets_1_0, 1, 0);
c14_sets!(c14_sets_1_1, 1, 1);
c14_sets!(c14_sets_2_1, 2, 1);
c14_sets!(c14_sets_2_2, 2, 2);
c14_sets!(c14_sets_2_3, 2, 3);
c14_sets!(c14_sets_1_3, 1, 3);

// ---- ill-formed calls: the result is not a Boolean (the test is then false) ------
proof!(c14_non_array, 5, {
    let (i0, i1, xi): (i64, i64, i64) = (kani::any(), kani::any(), kani::any());
    let mut vals: [Value; 2] = [Value::Null, Value::Null];
    vals[0] = vint(i0);
    vals[1] = vint(i1);
    let lv = Value::Array(cvec(&mut vals, 2));
    let x = vint(xi);
    let none = |v: Value| {
        let r = as_b(&v).is_none();
        forget(v);
        r
    };
    assert!(none(call("in", &lv, &x)), "in with a non-array list must not be true/false");
    assert!(none(call("nin", &lv, &x)), "nin with a non-array list must not be true/false");
    assert!(none(call("any_of", &lv, &x)), "any_of with a non-array must not be true/false");
    assert!(none(call("none_of", &lv, &x)), "none_of with a non-array must not be true/false");
    assert!(none(call("subset_of", &lv, &x)), "subset_of with a non-array must not be true/false");
    assert!(none(call("any_of", &x, &lv)), "any_of with a non-array first argument");
    assert!(none(call("none_of", &x, &lv)), "none_of with a non-array first argument");
    assert!(none(call("subset_of", &x, &lv)), "subset_of with a non-array first argument");
    assert!(none(call1("nin", &lv)), "nin with a missing argument must not be true/false");
    assert!(none(call1("in", &lv)), "in with a missing argument must not be true/false");
    assert!(none(call1("subset_of", &lv)), "subset_of with a missing argument must not be true/false");
    kani::cover!(true, "end reached");
    forget(lv);
    forget(x);
    forget(vals);
});

