// harnesses for queryable (cfg(kani) only)
