// Harnesses for src/query/queryable.rs (cfg(kani) only): C14 (extension functions on serde_json::Value), C15.
#![allow(unused_imports, dead_code)]
use super::*;
use crate::verif_common::*;
use core::mem::{forget, ManuallyDrop, MaybeUninit};
use serde_json::Value;
use std::borrow::Cow;

/// serde_json scalar from a Mini proto (Null, Bool, Int, 1-byte Str)
fn scalar_value(m: &Mini) -> Value {
    match m {
        Mini::Null => Value::Null,
        Mini::Bool(b) => Value::Bool(*b),
        Mini::Int(i) => Value::Number(serde_json::Number::from(*i)),
        Mini::Str(s) => Value::String(String::from(*s)),
        _ => {
            kani::assert(false, "VERIF-LIMIT scalar_value on a container");
            Value::Null
        }
    }
}

fn any_str1() -> Mini {
    let b: u8 = kani::any();
    kani::assume(b < 0x80);
    Mini::Str(str_over(leak([b]), 1))
}

/// A JSON array of up to 3 elements as serde_json::Value built over typed
/// storage, together with its Mini proto. Layout fixed per call:
/// [int, 1-byte string, [int]] truncated to n elements.
struct Arr3 {
    protos: [Mini; 3],
    inner_proto: [Mini; 4],
    inner_vals: [Value; 4],
    vals: [Value; 4],
    n: usize,
}
impl Arr3 {
    /// Fields are written after the struct has reached its final place (a
    /// by-value move of initialised enum arrays goes through a byte copy in the
    /// GOTO program and the discriminants stop folding).
    fn new() -> Arr3 {
        Arr3 {
            protos: [Mini::Null; 3],
            inner_proto: [Mini::Null; 4],
            inner_vals: [Value::Null, Value::Null, Value::Null, Value::Null],
            vals: [Value::Null, Value::Null, Value::Null, Value::Null],
            n: 0,
        }
    }
    fn fill_mixed(&mut self, n: usize) {
        let i0: i64 = kani::any();
        let s1 = any_str1();
        let i2: i64 = kani::any();
        self.protos[0] = Mini::Int(i0);
        self.protos[1] = s1;
        self.protos[2] = Mini::Null;
        self.inner_proto[0] = Mini::Int(i2);
        self.inner_vals[0] = Value::Number(serde_json::Number::from(i2));
        self.vals[0] = Value::Number(serde_json::Number::from(i0));
        self.vals[1] = scalar_value(&s1);
        self.n = n;
    }
    fn fill_ints(&mut self, n: usize) {
        let (i0, i1, i2): (i64, i64, i64) = (kani::any(), kani::any(), kani::any());
        self.protos[0] = Mini::Int(i0);
        self.protos[1] = Mini::Int(i1);
        self.protos[2] = Mini::Int(i2);
        self.vals[0] = Value::Number(serde_json::Number::from(i0));
        self.vals[1] = Value::Number(serde_json::Number::from(i1));
        self.vals[2] = Value::Number(serde_json::Number::from(i2));
        self.n = n;
    }
    /// call once, after the struct has reached its final place
    fn finish(&mut self, mixed: bool) -> Value {
        if mixed {
            self.vals[2] = Value::Array(tvec(&mut self.inner_vals, 1));
        }
        Value::Array(tvec(&mut self.vals, self.n))
    }
    /// proto of element i (i < n); for the nested array a Mini::Arr over inner_proto
    fn proto_eq(&self, i: usize, mixed: bool, x: &Mini, x_inner: Option<i64>) -> bool {
        if mixed && i == 2 {
            match (x_inner, &self.inner_proto[0]) {
                (Some(v), Mini::Int(w)) => v == *w,
                _ => false,
            }
        } else if x_inner.is_some() {
            false
        } else {
            self.protos[i] == *x
        }
    }
}

// Backing buffers have 4 initialised slots and harnesses unwind 5: loop
// iterations beyond the (opaque) length are still executed symbolically under a
// false guard and must read benign, concretely tagged elements.
static PAD: Value = Value::Null;
fn call(name: &str, a: &Value, b: &Value) -> Value {
    let mut args: [Cow<Value>; 4] = [Cow::Borrowed(a), Cow::Borrowed(b), Cow::Borrowed(&PAD), Cow::Borrowed(&PAD)];
    let v = tvec(&mut args, 2);
    let r = <Value as Queryable>::extension_custom(name, v);
    forget(args);
    r
}

fn as_b(v: &Value) -> Option<bool> {
    match v {
        Value::Bool(b) => Some(*b),
        _ => None,
    }
}

// ---- in / nin: x scalar or nested array, list of 0..3 mixed elements -----------
macro_rules! c14_in {
    ($name:ident, $unwind:expr, |$xi:ident| $xb:block) => {
        proof!($name, 5, {
            let n: usize = kani::any();
            kani::assume(n <= 3);
            let mut l = Arr3::new();
            l.fill_mixed(n);
            let lv = ManuallyDrop::new(l.finish(true));
            // x: (proto, inner int if x is the array [int])
            let mut $xi: [Value; 4] = [Value::Null, Value::Null, Value::Null, Value::Null];
            let (xp, x_inner, xv): (Mini, Option<i64>, Value) = $xb;
            let xv = ManuallyDrop::new(xv);
            let mut spec = false;
            let mut i = 0;
            while i < n {
                if l.proto_eq(i, true, &xp, x_inner) {
                    spec = true;
                }
                i += 1;
            }
            let r_in = ManuallyDrop::new(call("in", &xv, &lv));
            let r_nin = ManuallyDrop::new(call("nin", &xv, &lv));
            assert!(as_b(&r_in) == Some(spec), "in(x, L) differs from membership of x in L");
            assert!(as_b(&r_nin) == Some(!spec), "nin(x, L) is not the negation of in(x, L)");
            kani::cover!(spec, "x is a member");
            kani::cover!(!spec && n == 3, "x is not a member of a 3-element list");
            kani::cover!(n == 0, "empty list");
            forget(l);
            forget($xi);
        });
    };
}
c14_in!(c14_in_int, 5, |xi| {
    let v: i64 = kani::any();
    (Mini::Int(v), None, Value::Number(serde_json::Number::from(v)))
});
c14_in!(c14_in_str, 5, |xi| {
    let s = any_str1();
    (s, None, scalar_value(&s))
});
c14_in!(c14_in_null, 5, |xi| { (Mini::Null, None, Value::Null) });
c14_in!(c14_in_bool, 5, |xi| {
    let b: bool = kani::any();
    (Mini::Bool(b), None, Value::Bool(b))
});
c14_in!(c14_in_nested, 5, |xi| {
    let v: i64 = kani::any();
    xi[0] = Value::Number(serde_json::Number::from(v));
    (Mini::Null, Some(v), Value::Array(tvec(&mut xi, 1)))
});

// ---- any_of / none_of / subset_of: A of 0..2, B of 0..3 -------------------------
macro_rules! c14_sets {
    ($name:ident, $amixed:expr, $bmixed:expr) => {
        proof!($name, 5, {
            let (na, nb): (usize, usize) = (kani::any(), kani::any());
            kani::assume(na <= 2 && nb <= 3);
            let (mut a, mut b) = (Arr3::new(), Arr3::new());
            if $amixed { a.fill_mixed(na) } else { a.fill_ints(na) };
            if $bmixed { b.fill_mixed(nb) } else { b.fill_ints(nb) };
            let av = ManuallyDrop::new(a.finish($amixed));
            let bv = ManuallyDrop::new(b.finish($bmixed));
            // reference: per element of A, is it in B (json equality on protos)
            let mut any = false;
            let mut all = true;
            let mut i = 0;
            while i < na {
                let mut found = false;
                let mut j = 0;
                while j < nb {
                    if a.protos[i] == b.protos[j] && !($bmixed && j == 2) {
                        found = true;
                    }
                    j += 1;
                }
                if found {
                    any = true;
                } else {
                    all = false;
                }
                i += 1;
            }
            let r_any = ManuallyDrop::new(call("any_of", &av, &bv));
            let r_none = ManuallyDrop::new(call("none_of", &av, &bv));
            let r_sub = ManuallyDrop::new(call("subset_of", &av, &bv));
            assert!(as_b(&r_any) == Some(any), "any_of(A, B) differs from 'A and B share an element'");
            assert!(as_b(&r_none) == Some(!any), "none_of(A, B) is not the negation of any_of(A, B)");
            assert!(as_b(&r_sub) == Some(all), "subset_of(A, B) differs from 'every element of A occurs in B'");
            kani::cover!(na == 0 && nb == 0, "both empty");
            kani::cover!(na == 2 && all, "two-element subset");
            kani::cover!(na == 2 && any && !all, "overlap without inclusion");
            kani::cover!(na == 2 && nb == 1 && all, "A longer than B but still a subset (duplicates)");
            forget(a);
            forget(b);
        });
    };
}
c14_sets!(c14_sets_ints_ints, false, false);
c14_sets!(c14_sets_ints_mixed, false, true);

// ---- ill-formed calls: the result is not a Boolean (the test is then false) ------
proof!(c14_non_array, 5, {
    let n: usize = kani::any();
    kani::assume(n <= 3);
    let mut l = Arr3::new();
    l.fill_ints(n);
    let lv = ManuallyDrop::new(l.finish(false));
    let v: i64 = kani::any();
    let x = ManuallyDrop::new(Value::Number(serde_json::Number::from(v)));
    // second argument not an array
    assert!(as_b(&ManuallyDrop::new(call("in", &lv, &x))).is_none(), "in with a non-array list must not be true/false");
    assert!(as_b(&ManuallyDrop::new(call("nin", &lv, &x))).is_none(), "nin with a non-array list must not be true/false");
    assert!(as_b(&ManuallyDrop::new(call("any_of", &lv, &x))).is_none(), "any_of with a non-array must not be true/false");
    assert!(as_b(&ManuallyDrop::new(call("none_of", &lv, &x))).is_none(), "none_of with a non-array must not be true/false");
    assert!(as_b(&ManuallyDrop::new(call("subset_of", &lv, &x))).is_none(), "subset_of with a non-array must not be true/false");
    // first argument not an array where one is required
    assert!(as_b(&ManuallyDrop::new(call("any_of", &x, &lv))).is_none(), "any_of with a non-array first argument");
    assert!(as_b(&ManuallyDrop::new(call("none_of", &x, &lv))).is_none(), "none_of with a non-array first argument");
    assert!(as_b(&ManuallyDrop::new(call("subset_of", &x, &lv))).is_none(), "subset_of with a non-array first argument");
    // a missing argument (only one left)
    let mut one: [Cow<Value>; 4] = [Cow::Borrowed(&*lv), Cow::Borrowed(&PAD), Cow::Borrowed(&PAD), Cow::Borrowed(&PAD)];
    let r = ManuallyDrop::new(<Value as Queryable>::extension_custom("nin", tvec(&mut one, 1)));
    assert!(as_b(&r).is_none(), "nin with a missing argument must not be true/false");
    let mut one2: [Cow<Value>; 4] = [Cow::Borrowed(&*lv), Cow::Borrowed(&PAD), Cow::Borrowed(&PAD), Cow::Borrowed(&PAD)];
    let r2 = ManuallyDrop::new(<Value as Queryable>::extension_custom("in", tvec(&mut one2, 1)));
    assert!(as_b(&r2).is_none(), "in with a missing argument must not be true/false");
    kani::cover!(n == 3, "three elements");
    forget(l);
    forget(one);
    forget(one2);
});
