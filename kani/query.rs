// Harnesses for src/query.rs (cfg(kani) only): C08 (evaluation always yields Ok), C12 (entry points, history), C15 (second Queryable).
#![allow(unused_imports, dead_code, unused_mut)]
use super::*;
use crate::parser::model::{JpQuery, Segment, Selector};
use crate::verif_common::*;
use core::mem::{forget, ManuallyDrop};
use serde_json::Value;

fn doc3(sc: &mut Scratch) -> Mini {
    sc.elems[0] = Mini::Int(kani::any());
    sc.elems[1] = Mini::Null;
    sc.elems[2] = Mini::Bool(kani::any());
    sc.arr_c(3)
}

// ---------------------------------------------------------------------------
// C08/C01: js_path_process on one-segment queries of every selector kind: always
// Ok, and exactly the RFC nodes (identity), for every document kind.
macro_rules! c08_process {
    ($name:ident, $unwind:expr, |$sc:ident| $doc:expr, |$i:ident| $seg:expr, |$i2:ident, $n:ident, $got:ident, $sc2:ident| $check:block) => {
        proof!($name, $unwind, {
            let mut $sc = Scratch::new();
            let doc: Mini = $doc;
            let $i: i64 = any_ijson();
            let mut seg = $seg;
            let q = ManuallyDrop::new(JpQuery::new(seg_vec(&mut seg, 1)));
            let r = js_path_process(&q, &doc);
            match &r {
                Ok(v) => {
                    let $n = v.len();
                    let mut $got = [core::ptr::null::<Mini>(); 4];
                    let mut k = 0;
                    while k < v.len() && k < 4 {
                        $got[k] = v[k].0 as *const Mini;
                        k += 1;
                    }
                    let $i2 = $i;
                    let $sc2 = &$sc;
                    $check
                }
                Err(_) => assert!(false, "evaluating a well-formed query must never fail"),
            }
            kani::cover!(true, "end reached");
            forget(r);
            forget($sc);
        });
    };
}
c08_process!(c08_process_index_arr, 6, |sc| doc3(&mut sc), |i| m_index(i), |i, n, got, sc| {
    match rfc_index(i, 3) {
        Some(k) => assert!(n == 1 && core::ptr::eq(got[0], &sc.elems[k]), "$[i] must return exactly element i (len+i for negative i)"),
        None => assert!(n == 0, "$[i] out of range must return nothing"),
    }
});
c08_process!(c08_process_index_scalar, 6, |sc| Mini::Int(kani::any()), |i| m_index(i), |i, n, got, sc| {
    assert!(n == 0, "$[i] on a scalar must return nothing");
});
c08_process!(c08_process_wild_arr, 6, |sc| doc3(&mut sc), |i| m_wild(), |i, n, got, sc| {
    assert!(n == 3 && core::ptr::eq(got[0], &sc.elems[0]) && core::ptr::eq(got[1], &sc.elems[1]) && core::ptr::eq(got[2], &sc.elems[2]), "$[*] must return every element in order");
});
c08_process!(c08_process_wild_empty, 6, |sc| sc.arr_c(0), |i| m_wild(), |i, n, got, sc| {
    assert!(n == 0, "$[*] on an empty array must return nothing");
});
c08_process!(c08_process_name_obj, 8, |sc| { sc.set(0, "b", Mini::Null); sc.set(1, "a", Mini::Int(kani::any())); sc.obj(2) }, |i| m_name("a"), |i, n, got, sc| {
    assert!(n == 1 && core::ptr::eq(got[0], &sc.o.vals[1]), "$.a must return exactly member a");
});
c08_process!(c08_process_name_arr, 8, |sc| doc3(&mut sc), |i| m_name("a"), |i, n, got, sc| {
    assert!(n == 0, "$.a on an array must return nothing");
});

// the empty query `$` returns the root itself
proof!(c08_process_root, 6, {
    let doc = Mini::Int(kani::any());
    let mut pad = m_wild();
    let q = ManuallyDrop::new(JpQuery::new(seg_vec(&mut pad, 0)));
    let r = js_path_process(&q, &doc);
    match &r {
        Ok(v) => assert!(v.len() == 1 && core::ptr::eq(v[0].0, &doc), "`$` must return the root node itself"),
        Err(_) => assert!(false, "evaluating `$` must never fail"),
    }
    kani::cover!(true, "end reached");
    forget(r);
});

// ---------------------------------------------------------------------------
// C12: history independence - evaluating q on d, then another query on another
// document, then q on d again gives the same nodes; the documents are unchanged.
proof!(c12_history, 6, {
    let (mut s1, mut s2) = (Scratch::new(), Scratch::new());
    let d1 = doc3(&mut s1);
    let d2 = doc3(&mut s2);
    let (i, j): (i64, i64) = (any_ijson(), any_ijson());
    let (mut g1, mut g2) = (m_index(i), m_index(j));
    let q1 = ManuallyDrop::new(JpQuery::new(seg_vec(&mut g1, 1)));
    let q2 = ManuallyDrop::new(JpQuery::new(seg_vec(&mut g2, 1)));
    let before = (s1.elems[0], s1.elems[2]);
    let ra = js_path_process(&q1, &d1);
    let rx = js_path_process(&q2, &d2);
    let rb = js_path_process(&q1, &d1);
    match (&ra, &rb) {
        (Ok(a), Ok(b)) => {
            assert!(a.len() == b.len(), "repeating a query must give the same number of nodes");
            if a.len() == 1 && b.len() == 1 {
                assert!(core::ptr::eq(a[0].0, b[0].0), "repeating a query must give the same node");
            }
        }
        _ => assert!(false, "evaluation must not fail"),
    }
    assert!(before.0 == s1.elems[0] && before.1 == s1.elems[2], "evaluation must leave the document unchanged");
    kani::cover!(matches!(&ra, Ok(a) if a.len() == 1), "query selects a node");
    kani::cover!(matches!(&ra, Ok(a) if a.is_empty()) && matches!(&rx, Ok(x) if x.len() == 1), "other query selects, this one does not");
    forget(ra);
    forget(rx);
    forget(rb);
    forget(s1);
    forget(s2);
});

// QueryRef projections agree with the evaluation result (val / path of the same entry)
proof!(c12_projections, 6, {
    let mut s1 = Scratch::new();
    let d1 = doc3(&mut s1);
    let i: i64 = any_ijson();
    let mut g1 = m_index(i);
    let q1 = ManuallyDrop::new(JpQuery::new(seg_vec(&mut g1, 1)));
    let ra = js_path_process(&q1, &d1);
    let rb = js_path_process(&q1, &d1);
    if let (Ok(a), Ok(b)) = (ra, rb) {
        let mut ia = a.into_iter();
        let mut ib = b.into_iter();
        match (ia.next(), ib.next()) {
            (Some(x), Some(y)) => {
                let node = x.val();
                let path = y.path();
                let k = rfc_index(i, 3).unwrap_or(0);
                assert!(core::ptr::eq(node, &s1.elems[k]), "val() must be the selected node");
                assert!(!path.is_empty(), "path() must be the path reported for that node");
                forget(path);
            }
            (None, None) => {}
            _ => assert!(false, "two evaluations disagree"),
        }
        forget(ia);
        forget(ib);
    } else {
        assert!(false, "evaluation must not fail");
    }
    kani::cover!(true, "end reached");
    forget(s1);
});

// ---------------------------------------------------------------------------
// C15: one-segment queries over serde_json::Value and over Mini built from the
// same scalars select corresponding positions.
macro_rules! c15_process {
    ($name:ident, |$i:ident| $seg:expr) => {
        proof!($name, 6, {
            let (x0, x2): (i64, bool) = (kani::any(), kani::any());
            let mut sc = Scratch::new();
            sc.elems[0] = Mini::Int(x0);
            sc.elems[1] = Mini::Null;
            sc.elems[2] = Mini::Bool(x2);
            let dm = sc.arr_c(3);
            let mut vals: [Value; 3] = [Value::Null, Value::Null, Value::Null];
            vals[0] = Value::Number(serde_json::Number::from(x0));
            vals[2] = Value::Bool(x2);
            let dv = ManuallyDrop::new(Value::Array(cvec(&mut vals, 3)));
            let $i: i64 = any_ijson();
            let mut seg1 = $seg;
            let mut seg2 = $seg;
            let q1 = ManuallyDrop::new(JpQuery::new(seg_vec(&mut seg1, 1)));
            let q2 = ManuallyDrop::new(JpQuery::new(seg_vec(&mut seg2, 1)));
            let rm = js_path_process(&q1, &dm);
            let rv = js_path_process::<Value>(&q2, &dv);
            match (&rm, &rv) {
                (Ok(a), Ok(b)) => {
                    assert!(a.len() == b.len(), "result sizes differ between Value and another faithful Queryable");
                    let mut k = 0;
                    while k < a.len() && k < 3 {
                        // same position in the two documents
                        let mut pm = 9;
                        let mut pv = 8;
                        let mut j = 0;
                        while j < 3 {
                            if core::ptr::eq(a[k].0, &sc.elems[j]) {
                                pm = j;
                            }
                            if core::ptr::eq(b[k].0, &vals[j]) {
                                pv = j;
                            }
                            j += 1;
                        }
                        assert!(pm == pv, "results select different positions in Value and in another faithful Queryable");
                        k += 1;
                    }
                }
                _ => assert!(false, "evaluation must not fail"),
            }
            kani::cover!(matches!(&rv, Ok(b) if !b.is_empty()), "something selected");
            forget(rm);
            forget(rv);
            forget(sc);
            forget(vals);
        });
    };
}
c15_process!(c15_process_index, |i| m_index(i));
c15_process!(c15_process_wild, |i| m_wild());

// (composed queries such as `$[i][j]`, `$.a[*]`, `$.a.b` were tried here: the second stage's
// flat_map sees a Data whose discriminant is a merge of Ref/Nothing and CBMC explores the Refs arm
// (FlattenCompat over a heap vector) - no verdict in 600 s; see DESIGN 3.3 rule 6.)

// slice selector through the whole pipeline (js_path_process), array of 3, all of I^3
c08_process!(c08_process_slice_arr, 6, |sc| doc3(&mut sc), |i| m_slice(any_opt_ijson(), any_opt_ijson(), any_opt_ijson()), |i, n, got, sc| {
    // (the slice parameters are drawn inside the segment constructor; here: every returned node is an element, in strictly monotone position order)
    let mut last: i64 = -2;
    let mut dir: i64 = 0;
    let mut k = 0;
    while k < n && k < 4 {
        let mut pos: i64 = -1;
        let mut j = 0;
        while j < 3 {
            if core::ptr::eq(got[k], &sc.elems[j]) {
                pos = j as i64;
            }
            j += 1;
        }
        assert!(pos >= 0, "a slice must return elements of the array itself");
        if k >= 1 {
            let d = if pos > last { 1 } else { -1 };
            assert!(pos != last && (dir == 0 || dir == d), "a slice returns each element at most once, in monotone index order");
            dir = d;
        }
        last = pos;
        k += 1;
    }
    assert!(n <= 3, "a slice cannot return more nodes than the array has elements");
});

// C12: history independence with a wildcard query in between
proof!(c12_history_wild, 6, {
    let (mut s1, mut s2) = (Scratch::new(), Scratch::new());
    let d1 = doc3(&mut s1);
    let d2 = doc3(&mut s2);
    let i: i64 = any_ijson();
    let mut g1 = m_index(i);
    let mut g2 = m_wild();
    let q1 = ManuallyDrop::new(JpQuery::new(seg_vec(&mut g1, 1)));
    let q2 = ManuallyDrop::new(JpQuery::new(seg_vec(&mut g2, 1)));
    let ra = js_path_process(&q1, &d1);
    let rx = js_path_process(&q2, &d2);
    let ry = js_path_process(&q2, &d1);
    let rb = js_path_process(&q1, &d1);
    match (&ra, &rb) {
        (Ok(a), Ok(b)) => {
            assert!(a.len() == b.len(), "repeating a query must give the same number of nodes");
            if a.len() == 1 && b.len() == 1 {
                assert!(core::ptr::eq(a[0].0, b[0].0), "repeating a query must give the same node");
            }
        }
        _ => assert!(false, "evaluation must not fail"),
    }
    assert!(matches!(&rx, Ok(x) if x.len() == 3) && matches!(&ry, Ok(y) if y.len() == 3), "the wildcard query in between selects all three elements of either document");
    kani::cover!(matches!(&ra, Ok(a) if a.len() == 1), "query selects a node");
    forget(ra);
    forget(rx);
    forget(ry);
    forget(rb);
    forget(s1);
    forget(s2);
});
