// harnesses for query (cfg(kani) only)
