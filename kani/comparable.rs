// harnesses for comparable (cfg(kani) only)
