// harnesses for model (cfg(kani) only)
