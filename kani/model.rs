// Harnesses for src/parser/model.rs (cfg(kani) only): C06/C07 operator and function tables, AST mirror layout sanity.
#![allow(unused_imports, dead_code, unused_mut)]
use super::*;
use crate::verif_common::*;
use core::mem::forget;

fn md<T>(t: T) -> core::mem::ManuallyDrop<T> {
    core::mem::ManuallyDrop::new(t)
}
fn tag_of<T>(t: &T) -> u8 {
    unsafe { *(t as *const T as *const u8) }
}

// The mirror structs of verif_common rely on these discriminant values.
proof!(ast_layout_sanity, 3, {
    assert!(tag_of(&*md(Comparison::Eq(PAD_LIT, PAD_LIT))) == OP_EQ && tag_of(&*md(Comparison::Ne(PAD_LIT, PAD_LIT))) == OP_NE);
    assert!(tag_of(&*md(Comparison::Gt(PAD_LIT, PAD_LIT))) == OP_GT && tag_of(&*md(Comparison::Gte(PAD_LIT, PAD_LIT))) == OP_GTE);
    assert!(tag_of(&*md(Comparison::Lt(PAD_LIT, PAD_LIT))) == OP_LT && tag_of(&*md(Comparison::Lte(PAD_LIT, PAD_LIT))) == OP_LTE);
    assert!(tag_of(&*md(Comparable::Literal(Literal::Null))) == 0 && tag_of(&*md(Comparable::SingularQuery(SingularQuery::Current(Vec::new())))) == 2);
    assert!(tag_of(&*md(SingularQuery::Current(Vec::new()))) == SQ_CURRENT && tag_of(&*md(SingularQuery::Root(Vec::new()))) == SQ_ROOT);
    assert!(tag_of(&*md(SingularQuerySegment::Index(0))) == 0 && tag_of(&*md(SingularQuerySegment::Name(String::new()))) == 1);
    assert!(tag_of(&*md(Segment::Selector(Selector::Wildcard))) == SEG_SEL && tag_of(&*md(Segment::Selectors(Vec::new()))) == SEG_SELS);
    assert!(tag_of(&*md(Selector::Name(String::new()))) == SEL_NAME && tag_of(&*md(Selector::Wildcard)) == SEL_WILD && tag_of(&*md(Selector::Index(0))) == SEL_INDEX);
    assert!(tag_of(&*md(Selector::Slice(None, None, None))) == SEL_SLICE && tag_of(&*md(Selector::Filter(PADF))) == SEL_FILTER);
    assert!(tag_of(&*md(Filter::Or(Vec::new()))) == 0 && tag_of(&*md(Filter::And(Vec::new()))) == 1);
    kani::cover!(true, "end reached");
});

// Comparison::try_new: exactly the six RFC operators are accepted, each mapped to its own variant.
proof!(c07_comparison_ops, 5, {
    let n: usize = kani::any();
    kani::assume(n >= 1 && n <= 3);
    let mut buf = [0u8; 4];
    let (b0, b1, b2): (u8, u8, u8) = (kani::any(), kani::any(), kani::any());
    kani::assume(b0 < 0x80 && b1 < 0x80 && b2 < 0x80);
    buf[0] = b0;
    buf[1] = b1;
    buf[2] = b2;
    let op = str_over(&buf, n);
    let r = Comparison::try_new(op, PAD_LIT, PAD_LIT);
    let exp: Option<u8> = if n == 2 && b0 == b'=' && b1 == b'=' {
        Some(OP_EQ)
    } else if n == 2 && b0 == b'!' && b1 == b'=' {
        Some(OP_NE)
    } else if n == 1 && b0 == b'>' {
        Some(OP_GT)
    } else if n == 2 && b0 == b'>' && b1 == b'=' {
        Some(OP_GTE)
    } else if n == 1 && b0 == b'<' {
        Some(OP_LT)
    } else if n == 2 && b0 == b'<' && b1 == b'=' {
        Some(OP_LTE)
    } else {
        None
    };
    match &r {
        Ok(c) => {
            assert!(exp.is_some(), "an operator outside == != < <= > >= was accepted");
            assert!(Some(tag_of(c)) == exp, "operator token mapped to the wrong comparison");
        }
        Err(_) => assert!(exp.is_none(), "an RFC 9535 comparison operator was rejected"),
    }
    kani::cover!(exp == Some(OP_LTE), "<=");
    kani::cover!(exp == Some(OP_GT), ">");
    kani::cover!(exp.is_none() && n == 2 && b0 == b'i' && b1 == b'n', "the grammar's extra token `in` is rejected here");
    forget(r);
});

// TestFunction::try_new: arity and argument kinds of the five RFC functions.
const FN_LEN: u8 = 1;
const FN_VALUE: u8 = 2;
const FN_COUNT: u8 = 3;
const FN_SEARCH: u8 = 4;
const FN_MATCH: u8 = 5;
const FN_CUSTOM: u8 = 0;
fn lit_arg(_slot: &mut Test) -> MFnLit {
    mfn_lit(Literal::Int(1))
}
macro_rules! c07_fn {
    ($name:ident, $fname:expr, $nargs:expr, $arg:expr, $exp:expr) => {
        proof!($name, 8, {
            // arguments over typed storage, concrete length (heap-stored enum values
            // lose their discriminants for CBMC and the drop glue of every variant is explored)
            let mut t0 = Test::RelQuery(Vec::new());
            let mut t1 = Test::RelQuery(Vec::new());
            let mut buf = Pair { a: $arg(&mut t0), b: $arg(&mut t1) };
            let args = fnarg_vec(&mut buf, $nargs);
            let r = TestFunction::try_new($fname, args);
            let exp: Option<u8> = $exp;
            match &r {
                Ok(tf) => {
                    assert!(exp.is_some(), "an ill-formed function call was accepted");
                    assert!(Some(tag_of(tf)) == exp, "function name mapped to the wrong function");
                }
                Err(_) => assert!(exp.is_none(), "a well-formed function call was rejected"),
            }
            kani::cover!(true, "end reached");
            forget(r);
            forget(buf);
        });
    };
}
fn test_arg(slot: &mut Test) -> MFnTest {
    mfn_test(slot)
}
fn filter_arg(_slot: &mut Test) -> MFnFilter {
    mfn_filter(Filter::Or(Vec::new()))
}
c07_fn!(c07_fn_length_1, "length", 1, test_arg, Some(FN_LEN));
c07_fn!(c07_fn_length_0, "length", 0, test_arg, None);
c07_fn!(c07_fn_length_2, "length", 2, test_arg, None);
c07_fn!(c07_fn_length_lit, "length", 1, lit_arg, Some(FN_LEN));
c07_fn!(c07_fn_value_1, "value", 1, test_arg, Some(FN_VALUE));
c07_fn!(c07_fn_value_2, "value", 2, test_arg, None);
c07_fn!(c07_fn_count_1, "count", 1, test_arg, Some(FN_COUNT));
c07_fn!(c07_fn_count_0, "count", 0, test_arg, None);
c07_fn!(c07_fn_count_lit, "count", 1, lit_arg, None);
c07_fn!(c07_fn_count_filter, "count", 1, filter_arg, None);
c07_fn!(c07_fn_match_2, "match", 2, test_arg, Some(FN_MATCH));
c07_fn!(c07_fn_match_1, "match", 1, test_arg, None);
c07_fn!(c07_fn_search_2, "search", 2, lit_arg, Some(FN_SEARCH));
c07_fn!(c07_fn_search_0, "search", 0, lit_arg, None);
c07_fn!(c07_fn_custom, "in", 2, test_arg, Some(FN_CUSTOM));
// role B (finding F10): value() needs a NodesType argument, a literal is ill-typed
c07_fn!(c07_roleb_fn_value_lit, "value", 1, lit_arg, None);
