// harnesses for parser (cfg(kani) only)
