// Harnesses for src/parser.rs (cfg(kani) only): C06/C07/C08 - the hand-written validators behind the grammar.
#![allow(unused_imports, dead_code, unused_mut)]
use super::*;
use crate::verif_common::*;
use core::mem::forget;

// validate_range: accepts exactly the I-JSON integers (RFC 9535 2.1), value unchanged.
proof!(c06_validate_range, 3, {
    let v: i64 = kani::any();
    let r = validate_range(v);
    let inside = v >= IMIN && v <= IMAX;
    match &r {
        Ok(x) => {
            assert!(inside, "an integer outside the I-JSON range was accepted");
            assert!(*x == v, "validate_range changed the value");
        }
        Err(_) => assert!(!inside, "an integer inside the I-JSON range was rejected"),
    }
    kani::cover!(v == IMAX, "upper bound accepted");
    kani::cover!(v == IMIN, "lower bound accepted");
    kani::cover!(v == IMAX + 1, "just above");
    kani::cover!(v == i64::MIN, "i64::MIN");
    forget(r);
});

// validate_js_str: accepts exactly the strings without code points below U+0020.
macro_rules! c06_validate_js_str {
    ($name:ident, $unwind:expr, [$($w:expr),*]) => {
        proof!($name, $unwind, {
            let mut buf = [0u8; 8];
            let mut at = 0usize;
            let mut can_ctl = false;
            $( sym_scalar(&mut buf, at, $w); at += $w; if $w == 1 { can_ctl = true; } )*
            let s = str_over(&buf, at);
            let mut has_ctl = false;
            let mut i = 0;
            while i < at {
                if buf[i] < 0x20 {
                    has_ctl = true;
                }
                i += 1;
            }
            let r = validate_js_str(s);
            match &r {
                Ok(t) => {
                    assert!(!has_ctl, "a string with an unescaped control character was accepted");
                    assert!(t.len() == at && t.as_ptr() == s.as_ptr(), "validate_js_str must return its input");
                }
                Err(_) => assert!(has_ctl, "a string without control characters was rejected"),
            }
            kani::cover!(has_ctl || !can_ctl, "control character present");
            kani::cover!(!has_ctl, "no control character");
            forget(r);
        });
    };
}
c06_validate_js_str!(c06_validate_js_str_w1, 4, [1]);
c06_validate_js_str!(c06_validate_js_str_w1_1, 5, [1, 1]);
c06_validate_js_str!(c06_validate_js_str_w1_1_1, 6, [1, 1, 1]);
c06_validate_js_str!(c06_validate_js_str_w2_1, 6, [2, 1]);
c06_validate_js_str!(c06_validate_js_str_w1_3, 7, [1, 3]);
c06_validate_js_str!(c06_validate_js_str_w4, 7, [4]);
