// harnesses for state (cfg(kani) only)
