// Harnesses for src/query/state.rs (cfg(kani) only): C01/C02 nodelist algebra (reduce, flat_map).
#![allow(unused_imports, dead_code, unused_mut)]
use super::*;
use crate::verif_common::*;
use core::mem::{forget, MaybeUninit};

fn ubuf<'a>() -> [MaybeUninit<Pointer<'a, Mini>>; 4] {
    [MaybeUninit::uninit(), MaybeUninit::uninit(), MaybeUninit::uninit(), MaybeUninit::uninit()]
}
/// operand kind: 0 = Nothing, 1 = single Ref, 2.. = Refs of (kind-2) nodes
fn operand_data<'a>(nodes: &'a [Mini; 4], buf: &mut [MaybeUninit<Pointer<'a, Mini>>; 4], kind: usize) -> Data<'a, Mini> {
    if kind == 0 {
        Data::Nothing
    } else if kind == 1 {
        Data::Ref(Pointer::new(&nodes[0], String::from("p")))
    } else {
        refs_of(nodes, buf, kind - 2)
    }
}
fn operand_len(kind: usize) -> usize {
    if kind == 0 { 0 } else if kind == 1 { 1 } else { kind - 2 }
}

// reduce = concatenation: left nodes first, then right nodes, nothing dropped,
// nothing de-duplicated (the right operand reuses the left's nodes on purpose).
macro_rules! c02_reduce {
    ($name:ident, $kl:expr, $kr:expr) => {
        proof!($name, 6, {
            let nodes = [Mini::Int(kani::any()), Mini::Null, Mini::Bool(kani::any()), Mini::Int(kani::any())];
            let (mut bl, mut br) = (ubuf(), ubuf());
            let l = operand_data(&nodes, &mut bl, $kl);
            let r = operand_data(&nodes, &mut br, $kr);
            let d = l.reduce(r);
            let mut got = [core::ptr::null::<Mini>(); 8];
            let n = nodes_of(&d, &mut got);
            let (nl, nr) = (operand_len($kl), operand_len($kr));
            assert!(n == nl + nr, "concatenation lost or invented nodes");
            let mut i = 0;
            while i < nl {
                assert!(core::ptr::eq(got[i], &nodes[i]), "concatenation must keep the left operand first, in order");
                i += 1;
            }
            let mut j = 0;
            while j < nr {
                assert!(core::ptr::eq(got[nl + j], &nodes[j]), "concatenation must append the right operand in order (duplicates kept)");
                j += 1;
            }
            kani::cover!(true, "end reached");
            forget(d);
        });
    };
}
c02_reduce!(c02_reduce_n_n, 0, 0);
c02_reduce!(c02_reduce_n_r, 0, 1);
c02_reduce!(c02_reduce_r_n, 1, 0);
c02_reduce!(c02_reduce_r_r, 1, 1);
c02_reduce!(c02_reduce_r_v2, 1, 4);
c02_reduce!(c02_reduce_v2_r, 4, 1);
c02_reduce!(c02_reduce_v2_v2, 4, 4);
c02_reduce!(c02_reduce_v2_n, 4, 0);
c02_reduce!(c02_reduce_n_v2, 0, 4);
c02_reduce!(c02_reduce_v0_v1, 2, 3);
c02_reduce!(c02_reduce_v1_v0, 3, 2);

// flat_map = per-node expansion in input order. f maps node 0 -> two nodes,
// node 1 -> nothing, node 2 -> one node (all distinct markers).
proof!(c02_flat_map_refs, 6, {
    let nodes = [Mini::Int(kani::any()), Mini::Null, Mini::Bool(kani::any()), Mini::Int(kani::any())];
    let outs = [Mini::Int(0), Mini::Int(1), Mini::Int(2), Mini::Int(3)];
    let mut b = ubuf();
    let input = refs_of(&nodes, &mut b, 3);
    let mut ob = ubuf();
    ob[0].write(Pointer::new(&outs[0], String::from("p")));
    ob[1].write(Pointer::new(&outs[1], String::from("p")));
    let obp = ob.as_mut_ptr() as *mut Pointer<Mini>;
    let d = input.flat_map(|p| {
        if core::ptr::eq(p.inner, &nodes[0]) {
            Data::Refs(unsafe { Vec::from_raw_parts(obp, 2, 4) })
        } else if core::ptr::eq(p.inner, &nodes[1]) {
            Data::Nothing
        } else {
            Data::Ref(Pointer::new(&outs[2], String::from("p")))
        }
    });
    let mut got = [core::ptr::null::<Mini>(); 8];
    let n = nodes_of(&d, &mut got);
    assert!(n == 3, "flat_map lost or invented nodes");
    assert!(core::ptr::eq(got[0], &outs[0]) && core::ptr::eq(got[1], &outs[1]) && core::ptr::eq(got[2], &outs[2]), "flat_map must keep input order");
    kani::cover!(true, "end reached");
    forget(d);
});
proof!(c02_flat_map_ref_nothing, 6, {
    let nodes = [Mini::Int(kani::any()), Mini::Null, Mini::Bool(kani::any()), Mini::Int(kani::any())];
    let outs = [Mini::Int(0), Mini::Int(1)];
    let d = Data::Ref(Pointer::new(&nodes[0], String::from("p"))).flat_map(|_p| {
        Data::Refs(vec![Pointer::new(&outs[0], String::from("p")), Pointer::new(&outs[1], String::from("p"))])
    });
    let mut got = [core::ptr::null::<Mini>(); 8];
    let n = nodes_of(&d, &mut got);
    assert!(n == 2 && core::ptr::eq(got[0], &outs[0]) && core::ptr::eq(got[1], &outs[1]), "flat_map of a single node must be f(node)");
    let d2: Data<Mini> = Data::Nothing.flat_map(|_p| Data::Ref(Pointer::new(&outs[0], String::from("p"))));
    assert!(matches!(d2, Data::Nothing), "flat_map of nothing must be nothing");
    kani::cover!(true, "end reached");
    forget(d);
});
