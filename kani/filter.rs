// harnesses for filter (cfg(kani) only)
