// Harnesses for src/query/filter.rs (cfg(kani) only): C05 (Boolean algebra, existence, child selection, scoping), C01/C02 filter part.
#![allow(unused_imports, dead_code, unused_assignments, unused_mut)]
use super::*;
use crate::parser::model::{
    Comparable, Comparison, FilterAtom, Literal, Segment, Selector, SingularQuery, SingularQuerySegment, Test,
};
use crate::verif_common::*;
use core::mem::forget;

/// atom whose truth value is the free variable $x: the existence test `@`
/// (always selects the current node) negated iff !x.
macro_rules! atom {
    ($slot:ident, $x:expr) => {
        Filter::Atom(FilterAtom::Test { expr: tbox(&mut $slot), not: !$x })
    };
}

macro_rules! c05_bool {
    ($name:ident, |$x0:ident, $x1:ident, $x2:ident, $x3:ident, $c0:ident, $c1:ident, $c2:ident, $c3:ident, $b0:ident, $b1:ident, $b2:ident| $build:block, $spec:expr) => {
        proof!($name, 5, {
            let root = Mini::Null;
            let node = Mini::Null;
            let ($x0, $x1, $x2, $x3): (bool, bool, bool, bool) = (kani::any(), kani::any(), kani::any(), kani::any());
            let mut $c0 = Test::RelQuery(Vec::new());
            let mut $c1 = Test::RelQuery(Vec::new());
            let mut $c2 = Test::RelQuery(Vec::new());
            let mut $c3 = Test::RelQuery(Vec::new());
            let mut $b0 = [PADF, PADF, PADF, PADF];
            let mut $b1 = [PADF, PADF, PADF, PADF];
            let mut $b2 = [PADF, PADF, PADF, PADF];
            let f: Filter = $build;
            let r = f.filter_item(Pointer::empty(&node), &root);
            assert!(r == $spec, "logical expression does not follow Boolean algebra");
            kani::cover!(r, "expression true");
            kani::cover!(!r, "expression false");
            forget(f);
            forget($b0);
            forget($b1);
            forget($b2);
        });
    };
}

// (a && b) || c
c05_bool!(c05_bool_and_or, |a, b, c, d, c0, c1, c2, c3, and0, or0, or1| {
    and0[0] = atom!(c0, a);
    and0[1] = atom!(c1, b);
    or0[0] = Filter::And(cvec(&mut and0, 2));
    or0[1] = atom!(c2, c);
    Filter::Or(cvec(&mut or0, 2))
}, (a && b) || c);

// a || (b && c)
c05_bool!(c05_bool_or_and, |a, b, c, d, c0, c1, c2, c3, and0, or0, or1| {
    and0[0] = atom!(c1, b);
    and0[1] = atom!(c2, c);
    or0[0] = atom!(c0, a);
    or0[1] = Filter::And(cvec(&mut and0, 2));
    Filter::Or(cvec(&mut or0, 2))
}, a || (b && c));

// a && b && c, a || b || c
c05_bool!(c05_bool_and3, |a, b, c, d, c0, c1, c2, c3, and0, or0, or1| {
    and0[0] = atom!(c0, a);
    and0[1] = atom!(c1, b);
    and0[2] = atom!(c2, c);
    Filter::And(cvec(&mut and0, 3))
}, a && b && c);
c05_bool!(c05_bool_or3, |a, b, c, d, c0, c1, c2, c3, and0, or0, or1| {
    or0[0] = atom!(c0, a);
    or0[1] = atom!(c1, b);
    or0[2] = atom!(c2, c);
    Filter::Or(cvec(&mut or0, 3))
}, a || b || c);

// !(a || b) && c   (parenthesised group with negation)
c05_bool!(c05_bool_not_paren, |a, b, c, d, c0, c1, c2, c3, and0, or0, or1| {
    or0[0] = atom!(c0, a);
    or0[1] = atom!(c1, b);
    and0[0] = Filter::Atom(FilterAtom::filter(Filter::Or(cvec(&mut or0, 2)), true));
    and0[1] = atom!(c2, c);
    Filter::And(cvec(&mut and0, 2))
}, !(a || b) && c);

// (a || b) && (c || d)   (two parenthesised groups, no negation)
c05_bool!(c05_bool_paren_paren, |a, b, c, d, c0, c1, c2, c3, and0, or0, or1| {
    or0[0] = atom!(c0, a);
    or0[1] = atom!(c1, b);
    or1[0] = atom!(c2, c);
    or1[1] = atom!(c3, d);
    and0[0] = Filter::Atom(FilterAtom::filter(Filter::Or(cvec(&mut or0, 2)), false));
    and0[1] = Filter::Atom(FilterAtom::filter(Filter::Or(cvec(&mut or1, 2)), false));
    Filter::And(cvec(&mut and0, 2))
}, (a || b) && (c || d));

// !(!(a)) || !(b && c)   (double negation, negated conjunction); nodes in typed slots
c05_bool!(c05_bool_double_not, |a, b, c, d, c0, c1, c2, c3, and0, or0, or1| {
    or1[0] = atom!(c0, a);
    or1[1] = Filter::Atom(FilterAtom::Filter { expr: tbox(&mut or1[0]), not: true });
    and0[0] = atom!(c1, b);
    and0[1] = atom!(c2, c);
    or1[2] = Filter::And(cvec(&mut and0, 2));
    or0[0] = Filter::Atom(FilterAtom::Filter { expr: tbox(&mut or1[1]), not: true });
    or0[1] = Filter::Atom(FilterAtom::Filter { expr: tbox(&mut or1[2]), not: true });
    Filter::Or(cvec(&mut or0, 2))
}, a || !(b && c));

// The parser's constructors keep the operand and the negation flag exactly
// (structural check; with the evaluation harnesses above - FilterAtom::Filter
// {expr, not} evaluates to not xor eval(expr) - nested negations compose).
proof!(c05_ctor_paren, 5, {
    let (x, n1, n2): (bool, bool, bool) = (kani::any(), kani::any(), kani::any());
    let mut t0 = Test::RelQuery(Vec::new());
    let mut inner = atom!(t0, x);
    let inner_ptr = &inner as *const Filter;
    let mid = Filter::Atom(FilterAtom::Filter { expr: tbox(&mut inner), not: n1 });
    let outer = FilterAtom::filter(mid, n2);
    let mut ok = false;
    if let FilterAtom::Filter { expr, not } = &outer {
        if *not == n2 {
            if let Filter::Atom(FilterAtom::Filter { expr: e2, not: m }) = &**expr {
                ok = *m == n1 && core::ptr::eq(&**e2 as *const Filter, inner_ptr);
            }
        }
    }
    assert!(ok, "FilterAtom::filter does not keep its operand and negation flag");
    let t = FilterAtom::test(Test::RelQuery(Vec::new()), n1);
    let ok2 = matches!(&t, FilterAtom::Test { expr, not } if *not == n1 && matches!(&**expr, Test::RelQuery(v) if v.is_empty()));
    assert!(ok2, "FilterAtom::test does not keep its operand and negation flag");
    kani::cover!(n1 && n2, "double negation");
    forget(outer);
    forget(t);
});

// ---------------------------------------------------------------------------
// Existence tests: `?@.a` is true iff the member exists, whatever its value.
// child = {<member>: <value>}; query member name is "a".
macro_rules! c05_exist {
    ($name:ident, $member:expr, |$sv:ident| $val:expr) => {
        proof!($name, 6, {
            let root = Mini::Null;
            let mut $sv = Scratch::new();
            let mut sc = Scratch::new();
            let v: Mini = $val;
            sc.set(0, $member, v);
            let child = sc.obj(1);
            let not: bool = kani::any();
            let mut seg = m_name("a");
            let mut t = Test::RelQuery(seg_vec(&mut seg, 1));
            let atom = FilterAtom::Test { expr: tbox(&mut t), not };
            let r = atom.process(State::data(&root, Data::Ref(Pointer::empty(&child))));
            let got = matches!(r.data, Data::Value(Mini::Bool(true)));
            let exists = $member == "a";
            assert!(got == (exists ^ not), "existence test must be true exactly when the query selects a node");
            kani::cover!(not, "negated");
            kani::cover!(!not, "plain");
            forget(r);
            forget(atom);
            forget(sc);
            forget($sv);
        });
    };
}
c05_exist!(c05_exist_null, "a", |sv| Mini::Null);
c05_exist!(c05_exist_false, "a", |sv| Mini::Bool(kani::any()));
c05_exist!(c05_exist_int, "a", |sv| Mini::Int(kani::any()));
c05_exist!(c05_exist_str, "a", |sv| Mini::Str(leak_str(any_ascii(1))));
c05_exist!(c05_exist_empty_arr, "a", |sv| sv.arr(0));
c05_exist!(c05_exist_arr, "a", |sv| { sv.elems[0] = Mini::Null; sv.arr(1) });
c05_exist!(c05_exist_empty_obj, "a", |sv| sv.obj(0));
c05_exist!(c05_exist_missing, "b", |sv| Mini::Int(kani::any()));

// ---------------------------------------------------------------------------
// Child selection: a filter keeps exactly the children for which the
// expression holds, in order; `@` is the child. Predicate `@ <op> c`.
macro_rules! c05_select_arr {
    ($name:ident, $op:expr, $spec:expr) => {
        proof!($name, 6, {
            let root = Mini::Null;
            let mut sc = Scratch::new();
            let (e0, e1, e2, c): (i64, i64, i64, i64) = (kani::any(), kani::any(), kani::any(), any_ijson());
            sc.elems[0] = Mini::Int(e0);
            sc.elems[1] = Mini::Int(e1);
            sc.elems[2] = Mini::Int(e2);
            let node = sc.arr(3);
            let mut e = m_sqs_index(0);
            let mut cmp = MCmp { tag: $op, a: mc_sq(SQ_CURRENT, sqs_empty(&mut e)), b: mc_lit(Literal::Int(c)) };
            let f = Filter::Atom(FilterAtom::Comparison(cmp_box(&mut cmp)));
            let r = f.process(State::data(&root, Data::Ref(Pointer::new(&node, String::from("p")))));
            let mut got = [core::ptr::null::<Mini>(); 8];
            let n = nodes_of(&r.data, &mut got);
            let spec = $spec;
            let keep = [spec(e0, c), spec(e1, c), spec(e2, c)];
            let mut k = 0;
            let mut i = 0;
            while i < 3 {
                if keep[i] {
                    assert!(k < n && core::ptr::eq(got[k], &sc.elems[i]), "filter result differs from the children satisfying the expression (order / identity)");
                    k += 1;
                }
                i += 1;
            }
            assert!(n == k, "filter kept a child that does not satisfy the expression");
            kani::cover!(n == 0, "none kept");
            kani::cover!(n == 3, "all kept");
            kani::cover!(n == 2 && !keep[1], "middle child dropped");
            forget(r);
            forget(f);
            forget(sc);
        });
    };
}
c05_select_arr!(c05_select_arr_gt, OP_GT, |e: i64, c: i64| e > c);
c05_select_arr!(c05_select_arr_eq, OP_EQ, |e: i64, c: i64| e == c);
c05_select_arr!(c05_select_arr_lt, OP_LT, |e: i64, c: i64| e < c);
c05_select_arr!(c05_select_arr_lte, OP_LTE, |e: i64, c: i64| e <= c);
c05_select_arr!(c05_select_arr_ne, OP_NE, |e: i64, c: i64| e != c);

// object children: member values, document order
proof!(c05_select_obj_lt, 6, {
    let root = Mini::Null;
    let mut sc = Scratch::new();
    let (e0, e1, c): (i64, i64, i64) = (kani::any(), kani::any(), any_ijson());
    sc.set(0, "x", Mini::Int(e0));
    sc.set(1, "y", Mini::Int(e1));
    let node = sc.obj(2);
    let mut e = m_sqs_index(0);
    let mut cmp = MCmp { tag: OP_LT, a: mc_sq(SQ_CURRENT, sqs_empty(&mut e)), b: mc_lit(Literal::Int(c)) };
    let f = Filter::Atom(FilterAtom::Comparison(cmp_box(&mut cmp)));
    let r = f.process(State::data(&root, Data::Ref(Pointer::new(&node, String::from("p")))));
    let mut got = [core::ptr::null::<Mini>(); 8];
    let n = nodes_of(&r.data, &mut got);
    let keep = [e0 < c, e1 < c];
    let mut k = 0;
    let mut i = 0;
    while i < 2 {
        if keep[i] {
            assert!(k < n && core::ptr::eq(got[k], &sc.o.vals[i]), "filter result differs from the member values satisfying the expression");
            k += 1;
        }
        i += 1;
    }
    assert!(n == k, "filter kept a member value that does not satisfy the expression");
    kani::cover!(n == 2, "both kept");
    kani::cover!(n == 1 && keep[1], "only second kept");
    forget(r);
    forget(f);
    forget(sc);
});

// a filter applied to a scalar selects nothing
proof!(c05_select_scalar, 6, {
    let root = Mini::Null;
    let node = Mini::Int(kani::any());
    let (mut e1, mut e2) = (m_sqs_index(0), m_sqs_index(0));
    let mut cmp = MCmp { tag: OP_EQ, a: mc_sq(SQ_CURRENT, sqs_empty(&mut e1)), b: mc_sq(SQ_CURRENT, sqs_empty(&mut e2)) };
    let f = Filter::Atom(FilterAtom::Comparison(cmp_box(&mut cmp)));
    let r = f.process(State::data(&root, Data::Ref(Pointer::new(&node, String::from("p")))));
    let mut got = [core::ptr::null::<Mini>(); 8];
    let n = nodes_of(&r.data, &mut got);
    assert!(n == 0, "a filter applied to a scalar must select nothing");
    kani::cover!(true, "end reached");
    forget(r);
    forget(f);
});

// ---------------------------------------------------------------------------
// Scoping: `$` is the document root even when the filter runs below it,
// `@` is the child under test. root = {"j": b, "k": r}, filter on an array [x0, x1].
macro_rules! c05_scope {
    ($name:ident, $swap:expr) => {
        proof!($name, 6, {
            let mut sr = Scratch::new();
            let mut sx = Scratch::new();
            let (r0, x0, x1): (i64, i64, i64) = (kani::any(), kani::any(), kani::any());
            sx.elems[0] = Mini::Int(x0);
            sx.elems[1] = Mini::Int(x1);
            let xs = sx.arr(2);
            sr.set(0, "j", Mini::Bool(kani::any()));
            sr.set(1, "k", Mini::Int(r0));
            let root = sr.obj(2);
            let mut rseg = m_sqs_name("k");
            let mut e = m_sqs_index(0);
            let (ta, tb) = if $swap { (SQ_ROOT, SQ_CURRENT) } else { (SQ_CURRENT, SQ_ROOT) };
            let va = if $swap { sqs_vec(&mut rseg, 1) } else { sqs_empty(&mut e) };
            let vb = if $swap { sqs_empty(&mut e) } else { sqs_vec(&mut rseg, 1) };
            let mut cmp = MCmp { tag: OP_EQ, a: mc_sq(ta, va), b: mc_sq(tb, vb) };
            let f = Filter::Atom(FilterAtom::Comparison(cmp_box(&mut cmp)));
            // the node the filter is applied to lies below the root in a real query; for
            // this unit only `root` (what `$` must denote) and the node itself matter
            let r = f.process(State::data(&root, Data::Ref(Pointer::new(&xs, String::from("p")))));
            let mut got = [core::ptr::null::<Mini>(); 8];
            let n = nodes_of(&r.data, &mut got);
            let keep = [x0 == r0, x1 == r0];
            let mut k = 0;
            let mut i = 0;
            while i < 2 {
                if keep[i] {
                    assert!(k < n && core::ptr::eq(got[k], &sx.elems[i]), "`@ == $.k`: children equal to the root's member must be kept");
                    k += 1;
                }
                i += 1;
            }
            assert!(n == k, "`@ == $.k`: a child different from the root's member was kept");
            kani::cover!(n == 2, "both children equal $.k");
            kani::cover!(n == 1, "one child equals $.k");
            forget(r);
            forget(f);
            forget(sr);
            forget(sx);
        });
    };
}
c05_scope!(c05_scope_cur_root, false);
c05_scope!(c05_scope_root_cur, true);

// ---------------------------------------------------------------------------
// C03 (filter route, real core::fmt): children kept by a filter are reported under
// their own index even when they hold equal values. Array [x, x], predicate @ == c.
proof_fmt!(c03_filter_route_dup, 12, {
    let root = Mini::Null;
    let mut sc = Scratch::new();
    let x: i64 = any_ijson();
    sc.elems[0] = Mini::Int(x);
    sc.elems[1] = Mini::Int(x);
    let node = sc.arr_c(2);
    let mut e = m_sqs_index(0);
    let mut cmp = MCmp { tag: OP_EQ, a: mc_sq(SQ_CURRENT, sqs_empty(&mut e)), b: mc_lit(Literal::Int(x)) };
    let f = Filter::Atom(FilterAtom::Comparison(cmp_box(&mut cmp)));
    let r = f.process(State::data(&root, Data::Ref(Pointer::new(&node, String::from("$")))));
    if let Data::Refs(v) = &r.data {
        assert!(v.len() == 2, "both equal elements satisfy @ == x");
        let p0 = v[0].path.as_bytes();
        let p1 = v[1].path.as_bytes();
        assert!(p0.len() == 4 && p0[0] == b'$' && p0[1] == b'[' && p0[2] == b'0' && p0[3] == b']', "first kept child must be reported as $[0]");
        assert!(p1.len() == 4 && p1[0] == b'$' && p1[1] == b'[' && p1[2] == b'1' && p1[3] == b']', "second kept child must be reported as $[1], not under the index of an equal earlier element");
    } else {
        assert!(false, "filter on an array must yield a nodelist");
    }
    kani::cover!(true, "end reached");
    forget(r);
    forget(f);
    forget(sc);
});

// ---------------------------------------------------------------------------
// C05: `$` inside a filter denotes the document root also when the absolute query
// starts with a filter selector: `?$[?@ == c]` is true iff some child of the ROOT
// equals c, whatever the current node is.
proof!(c05_abs_query_filter, 6, {
    let mut sr = Scratch::new();
    let (r0, r1, c): (i64, i64, i64) = (kani::any(), kani::any(), any_ijson());
    sr.elems[0] = Mini::Int(r0);
    sr.elems[1] = Mini::Int(r1);
    let root = sr.arr_c(2);
    let current = Mini::Null;
    let mut e = m_sqs_index(0);
    let mut cmp = MCmp { tag: OP_EQ, a: mc_sq(SQ_CURRENT, sqs_empty(&mut e)), b: mc_lit(Literal::Int(c)) };
    let mut seg = m_filter(Filter::Atom(FilterAtom::Comparison(cmp_box(&mut cmp))));
    let mut t = Test::AbsQuery(crate::parser::model::JpQuery::new(seg_vec(&mut seg, 1)));
    let atom = FilterAtom::Test { expr: tbox(&mut t), not: false };
    let r = atom.process(State::data(&root, Data::Ref(Pointer::empty(&current))));
    let got = matches!(r.data, Data::Value(Mini::Bool(true)));
    assert!(got == (r0 == c || r1 == c), "`?$[?@ == c]` must test the children of the document root");
    kani::cover!(got, "some root child equals c");
    kani::cover!(!got, "no root child equals c");
    forget(r);
    forget(atom);
    forget(sr);
});

// more formula shapes: !a && !b ; a && (b || c) ; !(a && b) || (c && d)
c05_bool!(c05_bool_not_not, |a, b, c, d, c0, c1, c2, c3, and0, or0, or1| {
    and0[0] = atom!(c0, !a);
    and0[1] = atom!(c1, !b);
    Filter::And(cvec(&mut and0, 2))
}, !a && !b);
c05_bool!(c05_bool_and_paren_or, |a, b, c, d, c0, c1, c2, c3, and0, or0, or1| {
    or0[0] = atom!(c1, b);
    or0[1] = atom!(c2, c);
    or1[0] = Filter::Or(cvec(&mut or0, 2));
    and0[0] = atom!(c0, a);
    and0[1] = Filter::Atom(FilterAtom::Filter { expr: tbox(&mut or1[0]), not: false });
    Filter::And(cvec(&mut and0, 2))
}, a && (b || c));

// existence test over a multi-node query: `?@.*` is true iff the child has at least one child
macro_rules! c05_exist_wild {
    ($name:ident, $n:expr) => {
        proof!($name, 6, {
            let root = Mini::Null;
            let mut sc = Scratch::new();
            sc.elems[0] = Mini::Null;
            sc.elems[1] = Mini::Bool(kani::any());
            let child = sc.arr_c($n);
            let not: bool = kani::any();
            let mut seg = m_wild();
            let mut t = Test::RelQuery(seg_vec(&mut seg, 1));
            let atom = FilterAtom::Test { expr: tbox(&mut t), not };
            let r = atom.process(State::data(&root, Data::Ref(Pointer::empty(&child))));
            let got = matches!(r.data, Data::Value(Mini::Bool(true)));
            assert!(got == (($n > 0) ^ not), "`?@.*` must be true exactly when the node has a child (whatever the children's values)");
            kani::cover!(not, "negated");
            kani::cover!(!not, "plain");
            forget(r);
            forget(atom);
            forget(sc);
        });
    };
}
c05_exist_wild!(c05_exist_wild_n0, 0);
c05_exist_wild!(c05_exist_wild_n2, 2);

// `@ == $[1]`: the `$` operand of a comparison is a singular query from the DOCUMENT ROOT
// (an array [r0, r1]; index concrete), `@` is the child under test. Filter on [x0, x1].
macro_rules! c05_scope_idx {
    ($name:ident, $swap:expr, $op:expr, $spec:expr) => {
        proof!($name, 6, {
            let mut sr = Scratch::new();
            let mut sx = Scratch::new();
            let (r0, r1, x0, x1): (i64, i64, i64, i64) = (kani::any(), kani::any(), kani::any(), kani::any());
            sx.elems[0] = Mini::Int(x0);
            sx.elems[1] = Mini::Int(x1);
            let xs = sx.arr(2);
            sr.elems[0] = Mini::Int(r0);
            sr.elems[1] = Mini::Int(r1);
            let root = sr.arr_c(2);
            let mut rseg = m_sqs_index(1);
            let mut e = m_sqs_index(0);
            let (ta, tb) = if $swap { (SQ_ROOT, SQ_CURRENT) } else { (SQ_CURRENT, SQ_ROOT) };
            let va = if $swap { sqs_vec(&mut rseg, 1) } else { sqs_empty(&mut e) };
            let vb = if $swap { sqs_empty(&mut e) } else { sqs_vec(&mut rseg, 1) };
            let mut cmp = MCmp { tag: $op, a: mc_sq(ta, va), b: mc_sq(tb, vb) };
            let f = Filter::Atom(FilterAtom::Comparison(cmp_box(&mut cmp)));
            let r = f.process(State::data(&root, Data::Ref(Pointer::new(&xs, String::from("p")))));
            let mut got = [core::ptr::null::<Mini>(); 8];
            let n = nodes_of(&r.data, &mut got);
            let spec = $spec;
            let keep = [spec(x0, r1), spec(x1, r1)];
            let mut k = 0;
            let mut i = 0;
            while i < 2 {
                if keep[i] {
                    assert!(k < n && core::ptr::eq(got[k], &sx.elems[i]), "`@ op $[1]`: a child satisfying the comparison with the root's element must be kept");
                    k += 1;
                }
                i += 1;
            }
            assert!(n == k, "`@ op $[1]`: a child not satisfying the comparison with the root's element was kept");
            kani::cover!(n == 2, "both children kept");
            kani::cover!(n == 1, "one child kept");
            kani::cover!(n == 0 && x0 == r0, "child equal to the other root element is not kept");
            forget(r);
            forget(f);
            forget(sr);
            forget(sx);
        });
    };
}
c05_scope_idx!(c05_scope_idx_cur_root, false, OP_EQ, |x: i64, r: i64| x == r);
c05_scope_idx!(c05_scope_idx_root_cur, true, OP_EQ, |x: i64, r: i64| x == r);
c05_scope_idx!(c05_scope_idx_root_lt_cur, true, OP_LT, |x: i64, r: i64| r < x);

// `@ == $.k` on a single-member root object {k: r0}
proof!(c05_scope_key1, 6, {
    let mut sr = Scratch::new();
    let mut sx = Scratch::new();
    let (r0, x0, x1): (i64, i64, i64) = (kani::any(), kani::any(), kani::any());
    sx.elems[0] = Mini::Int(x0);
    sx.elems[1] = Mini::Int(x1);
    let xs = sx.arr(2);
    sr.set(0, "k", Mini::Int(r0));
    let root = sr.obj(1);
    let mut rseg = m_sqs_name("k");
    let mut e = m_sqs_index(0);
    let mut cmp = MCmp { tag: OP_EQ, a: mc_sq(SQ_CURRENT, sqs_empty(&mut e)), b: mc_sq(SQ_ROOT, sqs_vec(&mut rseg, 1)) };
    let f = Filter::Atom(FilterAtom::Comparison(cmp_box(&mut cmp)));
    let r = f.process(State::data(&root, Data::Ref(Pointer::new(&xs, String::from("p")))));
    let mut got = [core::ptr::null::<Mini>(); 8];
    let n = nodes_of(&r.data, &mut got);
    let keep = [x0 == r0, x1 == r0];
    let mut k = 0;
    let mut i = 0;
    while i < 2 {
        if keep[i] {
            assert!(k < n && core::ptr::eq(got[k], &sx.elems[i]), "`@ == $.k`: children equal to the root's member must be kept");
            k += 1;
        }
        i += 1;
    }
    assert!(n == k, "`@ == $.k`: a child different from the root's member was kept");
    kani::cover!(n == 2, "both children equal $.k");
    kani::cover!(n == 1, "one child equals $.k");
    forget(r);
    forget(f);
    forget(sr);
    forget(sx);
});

// existence test over an index: `?@[i]` / `?!@[i]` on a child array of $n elements is true
// iff element i exists (negative i counts from the end), whatever the element is.
macro_rules! c05_exist_idx {
    ($name:ident, $n:expr) => {
        proof!($name, 6, {
            let root = Mini::Null;
            let mut sc = Scratch::new();
            sc.elems[0] = Mini::Null;
            sc.elems[1] = Mini::Bool(false);
            sc.elems[2] = Mini::Int(0);
            let child = sc.arr($n);
            let not: bool = kani::any();
            let i: i64 = any_ijson();
            let mut seg = m_index(i);
            let mut t = Test::RelQuery(seg_vec(&mut seg, 1));
            let atom = FilterAtom::Test { expr: tbox(&mut t), not };
            let r = atom.process(State::data(&root, Data::Ref(Pointer::empty(&child))));
            let got = matches!(r.data, Data::Value(Mini::Bool(true)));
            let exists = rfc_index(i, $n).is_some();
            assert!(got == (exists ^ not), "existence test over an index must be true exactly when that element exists");
            kani::cover!(exists && i < 0 || $n == 0, "negative index addressing an existing element");
            kani::cover!(exists && i >= 0 || $n == 0, "non-negative index addressing an existing element");
            kani::cover!(!exists, "no such element");
            forget(r);
            forget(atom);
            forget(sc);
        });
    };
}
c05_exist_idx!(c05_exist_idx_n0, 0);
c05_exist_idx!(c05_exist_idx_n1, 1);
c05_exist_idx!(c05_exist_idx_n3, 3);
