"""Registry: which Kani harness decides which property, at which tier.

A harness entry: name (fully qualified), tiers, funcs (crate functions encoded),
symbolic (solver variables and ranges), shape (concrete container shape), role
(A = must pass; B.. = isolates a known-bad input class), est (seconds, for batching).
"""

DEFAULT_TIMEOUT = {"quick": 420, "thorough": 2400}
REACH_CHECKS = {"quick": False, "thorough": False}

ASSUMPTIONS = [
    "Kani 0.68.0 MIR->GOTO translation and CBMC 6.11.0/CaDiCaL are trusted",
    "S1: Vec::with_capacity{,_in} stubbed to a constant capacity K (4 elements / 32 bytes) with assert(requested <= K)",
    "S2: Global::{alloc,grow,shrink,deallocate}_impl_runtime stubbed: every heap block has a concrete size class (32/64/128/256 bytes), growth/shrink in place, larger requests assert(false) (VERIF-LIMIT), deallocation is a no-op",
    "S4: regex::Regex::new stubbed to Err (regex_automata cannot be compiled by Kani); match/search not covered",
    "S6: core::str::count::do_count_chars (strings >= 32 bytes only) stubbed to assert(false) (VERIF-LIMIT)",
    "S5: results and documents are mem::forget-ed; destructors are outside every claim",
    "A2: harness document type Mini (verif_common) is a faithful Queryable; checked against serde_json::Value in C15",
    "bounded claim: holds for all values of the symbolic inputs at the listed concrete shapes only",
]

M = {
    "selector": "query::selector::verif_kani::",
    "segment": "query::segment::verif_kani::",
    "state": "query::state::verif_kani::",
    "filter": "query::filter::verif_kani::",
    "atom": "query::atom::verif_kani::",
    "comparison": "query::comparison::verif_kani::",
    "comparable": "query::comparable::verif_kani::",
    "test_function": "query::test_function::verif_kani::",
    "queryable": "query::queryable::verif_kani::",
    "query": "query::verif_kani::",
    "parser": "parser::verif_kani::",
    "model": "parser::model::verif_kani::",
}


def H(mod, name, tiers="qt", funcs=(), symbolic="", shape="", role="A", est=30, timeout=None, exclusive=False):
    d = {
        "name": M[mod] + name,
        "tiers": tuple({"q": "quick", "t": "thorough"}[c] for c in tiers),
        "funcs": list(funcs), "symbolic": symbolic, "shape": shape, "role": role, "est": est,
    }
    if timeout:
        d["timeout"] = timeout
    if exclusive:
        d["exclusive"] = True
    return d


PROPS = {}
PROP_INFO = {}

# ----------------------------------------------------------------------------- C11
PROPS["C11"] = [
    H("selector", "c11_index_len%d" % n, funcs=["query::selector::process_index"],
      symbolic="i in [-(2^53-1), 2^53-1]", shape="array of %d markers" % n, est=8)
    for n in (0, 1, 3, 4)
] + [
    H("selector", "c11_slice_len%d" % n, funcs=["query::selector::process_slice"],
      symbolic="start,end,step each absent or in [-(2^53-1), 2^53-1]", shape="array of %d markers" % n, est=e)
    for n, e in ((0, 10), (1, 30), (2, 60), (3, 200), (4, 400))
]
PROPS["C11"] += [
    H("selector", "c11_slice_len%d" % n, tiers="t", funcs=["query::selector::process_slice"],
      symbolic="start,end,step each absent or in [-(2^53-1), 2^53-1]", shape="array of %d markers (K = 8 allocation regime)" % n, est=e, timeout=2400)
    for n, e in ((5, 300), (6, 400), (7, 550))
] + [
    H("selector", "c11_index_len8", tiers="t", funcs=["query::selector::process_index"], symbolic="i in [-(2^53-1), 2^53-1]", shape="array of 8 markers (K = 8)", est=10),
]
PROP_INFO["C11"] = {
    "bounds": {"quick": "index: array length in {0,1,3,4}; slice: lengths 0..4; index/start/end/step any I-JSON integer or absent",
               "thorough": "same plus slice on lengths 5..7 and index on length 8 (K = 8 allocation regime)"},
    "outside": ["arrays longer than 4 (quick) / 8 (thorough)", "integers outside the I-JSON range", "the parser's own range check"],
}

HOOK_COMMITS = ["fda5525", "8508a74"]

NOT_APPLICABLE = [
    {"property_id": "C09", "reason": "reference/reference_mut = pest parser + serde_json BTreeMap pointer lookup; neither goes through CBMC (parser: no verdict in 20 min on a 3-byte concrete input; 2-member BTreeMap lookup: OOM at 12 GB), and the function exists only for serde_json::Value"},
]

# ----------------------------------------------------------------------------- C04
_C04_FUNCS = ["query::comparison::eq", "query::comparison::lt", "query::comparison::eq_json"]
_C04 = """nothing_nothing nothing_null nothing_bool nothing_int nothing_float nothing_str nothing_arr nothing_obj
null_null null_bool null_int null_float null_str null_arr null_obj bool_bool bool_int bool_float bool_str bool_arr bool_obj
int_int iint_float int_hugefloat float_float int_str int_arr int_obj float_str float_arr float_obj str1_str1 ascii2_ascii2 str1_ascii2 str_arr str_obj
arr_arr arr2_arr2 arr_arr2 arr_obj obj_obj obj_obj_ba obj_obj1""".split()
PROPS["C04"] = [
    H("comparison", "c04_" + n, funcs=_C04_FUNCS,
      symbolic="payloads of both operands (any i64 / I-JSON int / any finite f64 / any string of <=2 scalars / arrays of <=2 ints / objects of <=2 members), operand form value|node-ref",
      shape="operand kinds " + n.replace("_", " x "), est=8)
    for n in _C04
] + [
    H("comparison", "c04_ops_" + k, funcs=["query::comparison::Comparison::process", "query::comparable::Literal::process", "query::comparable::SingularQuery::process"] + _C04_FUNCS,
      symbolic=sym, shape="all six operators, literal <op> @", est=40)
    for k, sym in (("int_int", "literal int in I-JSON, node any i64"), ("float_int", "literal finite float, node I-JSON int"),
                   ("int_float", "literal I-JSON int, node finite float"), ("cross", "literal int, node bool"),
                   ("str_str", "literal and node: one ASCII byte each"))
] + [
    H("comparison", "c04_str_str", tiers="t", funcs=_C04_FUNCS, symbolic="two strings of <= 2 arbitrary Unicode scalars each",
      shape="string x string", est=500, timeout=3300),
    H("comparison", "c04_sq_index_eq", funcs=["query::comparison::Comparison::process", "query::comparable::SingularQuery::process", "query::comparable::SingularQuerySegment::process", "query::selector::process_index"] + _C04_FUNCS,
      symbolic="index i and constant c in I-JSON, two elements any i64", shape="@[i] == c, @[i] != c on the current node [x0, x1] (empty result when i is out of range)", est=30),
    H("comparison", "c04_roled_arr_if_fi", funcs=_C04_FUNCS, role="D",
      symbolic="array elements: I-JSON int and finite float", shape="[int,float] vs [float,int]", est=8),
]
PROP_INFO["C04"] = {
    "bounds": "one harness per unordered pair of operand kinds {nothing,null,bool,int,float,string,array,object}; strings <= 2 scalars, arrays <= 2 elements, objects <= 2 members; mixed int/float comparisons with the int in the I-JSON range, or any i64 against a float beyond the i64 range (|f| >= 1e19)",
    "outside": ["strings longer than 2 scalars", "containers nested deeper than 1", "u64 integers above i64::MAX", "integers outside I-JSON compared with floats inside the i64 range (|f| < 1e19): the engine rounds the integer to f64 there", "operator token parsing (grammar)"],
}

# ----------------------------------------------------------------------------- C10
PROPS["C10"] = [
    H("test_function", "c10_length_" + k, funcs=["query::test_function::length"],
      symbolic=sym, shape=k + " argument as node reference and as value", est=e)
    for k, sym, e in (("str_empty", "-", 5), ("str_w1", "any 1-byte scalar", 10), ("str_w2", "any 2-byte scalar", 10), ("str_w3", "any 3-byte scalar", 10),
                      ("str_w4", "any 4-byte scalar (non-BMP)", 10), ("str_w1_3", "scalars of UTF-8 widths 1,3", 15), ("str_w4_4", "two non-BMP scalars", 20),
                      ("str_w1_1_1", "three ASCII bytes", 15), ("str_w2_4_1", "scalars of widths 2,4,1", 20),
                      ("arr", "array length 0..3, element payloads", 15), ("obj", "member count 0..3, payloads", 20),
                      ("int", "any i64", 5), ("float", "any finite f64", 5), ("bool", "any bool", 5), ("null", "-", 5),
                      ("nothing", "-", 5))
] + [
    H("test_function", "c10_count_" + k, funcs=["query::test_function::count"], symbolic="node payloads",
      shape="nodelist " + k, est=8) for k in ("refs0", "refs1", "refs3", "ref", "nothing", "dup")
] + [
    H("test_function", "c10_value_" + k, funcs=["query::test_function::value"], symbolic="node payloads",
      shape="nodelist " + k, est=8) for k in ("refs0", "refs1", "refs2", "refs3", "ref")
]
PROPS["C10"] += [
    H("test_function", "c10_%s_in_cmp" % k, funcs=["query::comparison::Comparison::process", "query::comparable::Comparable::process (Function)", "query::test_function::TestFunction::apply", "query::test_function::" + k],
      symbolic=sym, shape="%s(@) == c through Comparison::process" % k, est=15)
    for k, sym in (("length", "array length 0..2, constant c"), ("count", "constant c"), ("value", "constant c"))
] + [
    H("test_function", "c10_length_literal_in_cmp", funcs=["query::test_function::length", "query::comparable::Literal::process", "query::comparison::Comparison::process"],
      symbolic="string literal of one ASCII and one 2-byte scalar (any content), constant c", shape="length(<literal>) == c", est=15),
]
PROP_INFO["C10"] = {
    "bounds": "length: strings of 0..3 scalars at the listed UTF-8 width patterns (any content), arrays/objects <= 3 entries, every scalar kind, empty nodelist; count/value: nodelists of 0..3 nodes, single node, nothing; count of a nodelist holding one node twice",
    "outside": ["match() and search(): the regex crate cannot be compiled by Kani (ICE in regex_automata) - not claimed",
                "function-call parsing and typing (grammar / C07)", "strings longer than 2 scalars", "nodelists longer than 3"],
}

# ----------------------------------------------------------------------------- C14
_C14F = ["<serde_json::Value as Queryable>::extension_custom"]
PROPS["C14"] = [
    H("queryable", "c14_in_" + k, funcs=_C14F, symbolic="x payload, list payloads (any i64, any ASCII byte)", shape="list [int, 1-byte string, [int]] truncated to n; x kind/n = " + k, est=15, timeout=300)
    for k in ("int_n0", "int_n1", "int_n3", "str_n1", "str_n2", "str_n3", "null_n3")
] + [
    H("queryable", "c14_non_array", funcs=_C14F, symbolic="payloads", shape="non-array / missing arguments for all five functions", est=15, timeout=300),
]
PROP_INFO["C14"] = {
    "bounds": "PARTIAL: in / nin for x of kind int, string, null against lists [int, 1-byte string, [int]] of 0..3 elements (all payloads symbolic), complement law nin = not in; for all five functions: a non-array or missing argument gives a non-Boolean result (so the test is false)",
    "outside": ["set semantics of any_of / none_of / subset_of and nested-array membership: serde_json::Value's derived PartialEq reached through nested iterator closures makes CBMC explore its BTreeMap arms (measured: no verdict in 300 s even for empty arrays) - not covered",
                "objects as elements (BTreeMap)", "float elements", "argument evaluation in test_function::custom (FlattenCompat over heap vectors: no verdict in 900 s)", "function-call parsing (grammar)"],
    "level_text": "PARTIAL claim: bounded model checking of <serde_json::Value as Queryable>::extension_custom for in/nin and for ill-formed argument lists; the three set functions' membership semantics are outside reach.",
}

# ----------------------------------------------------------------------------- C05
_C05F = ["query::filter::Filter::filter_item", "query::filter::Filter::process_elem", "query::filter::Filter::process",
         "query::atom::FilterAtom::process", "query::atom::invert_bool", "query::comparison::Comparison::process"]
PROPS["C05"] = [
    H("filter", "c05_bool_" + k, funcs=_C05F, symbolic="truth value of every atom (free Boolean)", shape=shape, est=40)
    for k, shape in (("and_or", "(a && b) || c"), ("or_and", "a || (b && c)"), ("and3", "a && b && c"), ("or3", "a || b || c"),
                     ("not_paren", "!(a || b) && c"), ("paren_paren", "(a || b) && (c || d)"), ("double_not", "!(!(a)) || !(b && c)"),
                     ("not_not", "!a && !b"), ("and_paren_or", "a && (b || c)"))
] + [
    H("filter", "c05_ctor_paren", funcs=_C05F + ["parser::model::FilterAtom::filter"], symbolic="atom value, inner and outer negation flags",
      shape="FilterAtom::filter(<(possibly negated) group>, not)", est=10),
] + [
    H("filter", "c05_exist_" + k, funcs=["query::atom::FilterAtom::process", "query::test::Test::process", "query::selector::process_key"],
      symbolic="member value payload, negation flag", shape="child {a|b: %s}, test ?@.a / ?!@.a" % k, est=40)
    for k in ("null", "false", "int", "str", "empty_arr", "arr", "empty_obj", "missing")
] + [
    H("filter", "c05_exist_wild_" + k, funcs=["query::atom::FilterAtom::process", "query::test::Test::process", "query::selector::process_wildcard"],
      symbolic="children payloads, negation flag", shape="child array of %s elements, test ?@.* / ?!@.*" % k[1:], est=20)
    for k in ("n0", "n2")
] + [
    H("filter", "c05_exist_idx_" + k, funcs=["query::atom::FilterAtom::process", "query::test::Test::process", "query::selector::process_index"],
      symbolic="index i in [-(2^53-1), 2^53-1], negation flag", shape="child array [null,false,0] truncated to %s elements, test ?@[i] / ?!@[i]" % k[1:], est=15)
    for k in ("n0", "n1", "n3")
] + [
    H("filter", "c05_select_arr_" + k, funcs=_C05F, symbolic="3 elements (any i64), constant c in I-JSON", shape="array of 3, predicate @ %s c" % k, est=200, timeout=900)
    for k in ("gt", "eq")
] + [
    H("filter", "c05_select_arr_" + k, tiers="t", funcs=_C05F, symbolic="3 elements (any i64), constant c in I-JSON", shape="array of 3, predicate @ %s c" % k, est=300, timeout=1500)
    for k in ("lt", "ne")
] + [
    H("filter", "c05_select_obj_lt", tiers="t", funcs=_C05F, symbolic="2 member values, constant", shape="object of 2, predicate @ < c", est=300, timeout=1500),
    H("filter", "c05_abs_query_filter", funcs=_C05F + ["query::test::Test::process (AbsQuery)", "State::shift_to_root"], symbolic="two root elements, constant c",
      shape="root [r0,r1], current node null, test ?$[?@ == c]", est=200, timeout=900),
    H("filter", "c05_select_scalar", funcs=_C05F, symbolic="scalar value", shape="filter on a scalar", est=20),
]
_SCOPE = [
    H("comparison", "c05_cmp_root_index", funcs=["query::comparison::Comparison::process", "query::comparable::SingularQuery::process (Root: State::shift_to_root)", "query::selector::process_index"] + _C04_FUNCS,
      symbolic="root elements r0, r1, current node x (any i64), index i in I-JSON", shape="$[i] == @ and $[i] < @ with root [r0, r1] and an unrelated current node", est=30),
] + [
    H("comparison", "c05_cmp_" + k, funcs=["query::comparison::Comparison::process", "query::comparable::SingularQuery::process (Root: State::shift_to_root)", "query::selector::process_key"] + _C04_FUNCS,
      symbolic="root member values, current node x (any i64)", shape=shape + " with root {j, k} and an unrelated current node", est=15)
    for k, shape in (("root_name", "$.k == @"), ("cur_root_name", "@ == $.k"))
]
PROPS["C05"] += _SCOPE + [h for h in PROPS["C04"] if h["name"] == "c04_sq_index_eq"]
PROP_INFO["C05"] = {
    "bounds": "formula shapes listed per harness (<= 4 atoms, 2 levels), all valuations; existence tests on members with every value kind and over an index (every I-JSON i, child arrays of 0/1/3); child selection on arrays of 3 / objects of 2; @/$ scoping: $-rooted absolute test queries, and $-rooted singular queries ($[i], $.k) as comparison operands against an unrelated current node",
    "outside": ["operator precedence and parenthesis parsing (pest grammar and AST construction from Pair<Rule>)", "formulas with more than 4 atoms or deeper nesting"],
}

# ----------------------------------------------------------------------------- C01 / C02 / C13
_SEL = ["query::selector::process_wildcard", "query::selector::process_key", "query::selector::process_index", "query::selector::process_slice"]
_C01 = [
    H("selector", "c01_wildcard_arr", funcs=[_SEL[0]], symbolic="array length 0..3, element payloads", shape="array [int, null, bool] truncated", est=10),
    H("selector", "c01_wildcard_obj", funcs=[_SEL[0]], symbolic="member count 0..3, value payloads", shape="object {b,a,c} truncated", est=10),
    H("selector", "c01_selectors_on_int", funcs=_SEL, symbolic="scalar payload, index, slice bounds", shape="all four selectors on an int", est=5),
    H("selector", "c01_selectors_on_str", funcs=_SEL, symbolic="scalar payload, index, slice bounds", shape="all four selectors on a string", est=5),
    H("selector", "c01_selectors_on_null", funcs=_SEL, symbolic="index, slice bounds", shape="all four selectors on null", est=5),
    H("selector", "c01_wrong_container", funcs=_SEL, symbolic="payloads, index, slice bounds", shape="index/slice on an object, name on an array", est=8),
] + [
    H("selector", "c01_name_" + k, funcs=[_SEL[1], "query::selector::normalize_json_key"], symbolic="member values", shape="object {a,b,ab}, name '%s'" % k, est=8)
    for k in ("a", "b", "ab", "ba", "c", "empty")
] + [
    H("selector", "c01_name_" + k, funcs=[_SEL[1], "query::selector::normalize_json_key"], symbolic="member values", shape="object with 2-, 3+3- and 4-byte UTF-8 names; name " + k, est=8)
    for k in ("u2", "u3", "u4", "u3_prefix")
]
_C02 = [
    H("state", "c02_reduce_" + k, funcs=["query::state::Data::reduce"], symbolic="node payloads", shape="operands " + k, est=5)
    for k in ("n_n", "n_r", "r_n", "r_r", "r_v2", "v2_r", "v2_v2", "v2_n", "n_v2", "v0_v1", "v1_v0")
] + [
    H("state", "c02_flat_map_ref_nothing", funcs=["query::state::Data::flat_map"], symbolic="node payloads", shape="flat_map of a single node / of nothing", est=10),
    H("segment", "c02_selectors_idx_idx", funcs=["query::segment::process_selectors", "query::state::Data::reduce"], symbolic="i, j in -4..4", shape="[i, j] on one array of 3", est=40),
    H("segment", "c02_selectors_slice_idx", funcs=["query::segment::process_selectors"], symbolic="slice bounds 0..3, j in -4..4", shape="[s:e, j] on one array of 3", est=120),
    H("segment", "c02_selectors_idx_slice", funcs=["query::segment::process_selectors"], symbolic="slice bounds 0..3, j in -4..4", shape="[j, s:e] on one array of 3", est=120),
    H("segment", "c02_selectors_wild_idx", funcs=["query::segment::process_selectors"], symbolic="j in -3..3", shape="[*, j] on one array of 2", est=60),
    H("segment", "c02_selectors_three", funcs=["query::segment::process_selectors"], symbolic="i, j, k in -3..2", shape="[i, j, k] on one array of 2", est=90),
    H("segment", "c02_selectors_idx_idx_wild", funcs=["query::segment::process_selectors", "query::state::Data::reduce"], symbolic="i, j in -4..3",
      shape="[i, j, *] on one array of 3 (a later selector yielding more nodes than all earlier ones; K = 8 allocation regime)", est=150, timeout=900),
]
_SLICES = [h for h in PROPS["C11"] if "slice" in h["name"]]
PROPS["C01"] = _C01 + [h for h in _C02 if "roleb" not in h["name"]] + [h for h in PROPS["C11"] if h["name"].endswith(("index_len3", "slice_len2"))]
PROPS["C02"] = _C02 + [h for h in _C01 if "wildcard" in h["name"]] + [h for h in _SLICES if h["name"].endswith(("len2", "len3"))]
PROPS["C13"] = [
    H("selector", "c13_name_spellings", funcs=[_SEL[1], "query::selector::normalize_json_key", "Queryable::get contract (Mini)"], symbolic="member values",
      shape="object {b,a}; names a, 'a', \"a\", 'c'", est=10),
    H("comparison", "c13_num_spelling_vs_int", funcs=_C04_FUNCS, symbolic="literal n in I-JSON (as Int and as Float), node any I-JSON int", shape="literal vs int node", est=60),
    H("comparison", "c13_num_spelling_vs_float", funcs=_C04_FUNCS, symbolic="literal n in I-JSON (as Int and as Float), node any finite float", shape="literal vs float node", est=60),
]
PROP_INFO["C01"] = {
    "bounds": "per-unit: each selector on one node (arrays <= 3-4, objects <= 3, every scalar kind), nodelist concatenation for operands of 0..2 nodes, multi-selector segments of 2 selectors on one node; composition over longer queries follows by the RFC's fold structure (paper argument) and is not solver-checked",
    "outside": ["descendant segments and multi-stage pipelines (nodelists stored in heap vectors and processed again): measured intractable in the quick budget, thorough-only harnesses where they finish",
                "filter selectors (see C05)", "names longer than 2 bytes / escape decoding in names", "arrays longer than 4, nodelists longer than 4"],
}
PROP_INFO["C02"] = {
    "bounds": "order of: wildcard children (array index order, object member order), slices incl. negative steps (lengths 2,3), concatenation of nodelists (all operand shapes of 0..2 nodes), multi-selector segments [i,j], [s:e,j], [j,s:e], [*,j], [i,j,k], [i,j,*] on one node with duplicates",
    "outside": ["descendant pre-order over trees (thorough-only, see DESIGN)", "segments with more than three selectors", "more than two input nodes"],
}
PROP_INFO["C13"] = {
    "bounds": "AST-level: the three name spellings a, 'a', \"a\" (as the parser hands them to the evaluator) select the same member of a 2-member object",
    "outside": ["optional blank space, .* vs [*], ?expr vs ?(expr), redundant parentheses: resolved in the pest grammar, which does not go through CBMC", "number literal spellings (parser)"],
}

# ----------------------------------------------------------------------------- C03
_C03F = ["query::state::Pointer::idx", "query::state::Pointer::key", "core::fmt (real formatter, no stub)"]
PROPS["C03"] = [
    H("selector", "c03_idx_path", funcs=_C03F, symbolic="index 0..9999", shape="Pointer::idx on path $", est=15),
    H("selector", "c03_key_path_plain", funcs=_C03F, symbolic="one printable ASCII byte other than ' and \\", shape="Pointer::key on path $", est=15),
    H("selector", "c03_key_path_plain2", funcs=_C03F, symbolic="two printable ASCII bytes other than ' and \\ (so also the member name made of two double quotes)", shape="Pointer::key on path $", est=30),
    H("selector", "c03_roleb_key_path_escaped", funcs=_C03F, role="B", symbolic="one byte in {' \\ LF TAB}", shape="Pointer::key on path $", est=15),
    H("selector", "c03_index_route_len3", funcs=_C03F + ["query::selector::process_index"], symbolic="i in -4..3", shape="array of 3", est=25),
    H("selector", "c03_slice_route_fixed", tiers="t", timeout=3000, exclusive=True, funcs=_C03F + ["query::selector::process_slice"], symbolic="element payloads only (slice parameters concrete: [::-2], [1::-1])", shape="array of 3", est=60),
    H("filter", "c03_filter_route_dup", tiers="t", exclusive=True, funcs=_C03F + ["query::filter::Filter::process"], symbolic="element value x (both elements equal), I-JSON",
      shape="[x, x], filter @ == x, real fmt", est=600, timeout=3300),
    H("selector", "c03_wildcard_route", funcs=_C03F + ["query::selector::process_wildcard"], symbolic="member values", shape="object {b,a} under $[7]; array of 2 under $['x']", est=90),
    H("selector", "c03_key_route_plain", funcs=_C03F + ["query::selector::process_key"], symbolic="member value", shape="names a and 'a' on {a}", est=15),
    H("selector", "c03_rolec_key_route_dquote", funcs=_C03F + ["query::selector::process_key"], role="C", symbolic="member value", shape="name \"a\" on {a}", est=15),
]
PROP_INFO["C03"] = {
    "bounds": "index steps 0..9999; one- and two-byte ASCII member names (no ' or \\); routes: index (incl. negative) and slice (incl. negative steps) on arrays of 3, wildcard on a 2-member object and a 2-element array, name selector in shorthand / single / double quoted spelling; real core::fmt",
    "outside": ["running a reported path as a query (needs the pest parser on a symbolic string: out of reach)", "multi-byte member names, names longer than two bytes", "paths through descendant and filter routes (multi-stage, see C02)", "indices above 9999"],
}

# ----------------------------------------------------------------------------- C06 / C07 (validators behind the grammar only)
_VAL = [
    H("parser", "c06_validate_range", funcs=["parser::validate_range"], symbolic="any i64", shape="-", est=5),
] + [
    H("parser", "c06_validate_js_str_" + k, funcs=["parser::validate_js_str"], symbolic="arbitrary valid UTF-8 of scalar widths " + k, shape="string of %d bytes" % sum(int(c) for c in k.split("_")[0:] if c.isdigit()), est=10)
    for k in ("w1", "w1_1", "w1_1_1", "w2_1", "w1_3", "w4")
]
_OPS = [H("model", "c07_comparison_ops", funcs=["parser::model::Comparison::try_new"], symbolic="operator token: any ASCII string of 1..3 bytes", shape="-", est=100)]
_FNS_OK = ["length_1", "length_lit", "value_1", "count_1", "match_2", "search_2", "custom"]
_FNS_BAD = ["length_0", "length_2", "value_2", "count_0", "match_1", "search_0"]
_FNS_BAD_SLOW = ["count_lit", "count_filter"]
def _fn(k, role="A"):
    return H("model", ("c07_roleb_fn_" if role == "B" else "c07_fn_") + k, funcs=["parser::model::TestFunction::try_new"], role=role,
             symbolic="- (name, arity and argument kind concrete)", shape="call " + k, est=8)
_LAYOUT = [H("model", "ast_layout_sanity", funcs=["discriminant values of the cfg(kani) repr(u8) AST enums"], symbolic="-", shape="-", est=80)]
PROPS["C06"] = _VAL + _OPS + [_fn(k) for k in _FNS_OK]
def _slow(h):
    h["tiers"] = ("thorough",); h["timeout"] = 3000; h["est"] = 2000
    return h
PROPS["C07"] = _VAL + _OPS + [_fn(k) for k in _FNS_BAD] + [_fn("value_lit", "B")]
PROP_INFO["C06"] = {
    "bounds": "PARTIAL: only the hand-written validators behind the grammar: validate_range (every i64), validate_js_str (strings of 1..3 scalars, any content), Comparison::try_new (every ASCII token of 1..3 bytes), TestFunction::try_new (listed well-formed calls)",
    "outside": ["the pest grammar itself (syntax, blank space, escapes, number formats, precedence) and AST construction from Pair<Rule>: pest does not go through CBMC even on a 3-byte concrete input (measured) - not applicable to this technique"],
    "level_text": "PARTIAL claim. Bounded model checking of the four hand-written validation units the parser calls after the PEG match; the grammar, which decides most of this property, is outside what a solver-based check of the real code can reach here and is NOT covered.",
}
PROP_INFO["C07"] = dict(PROP_INFO["C06"])
PROP_INFO["C07"]["bounds"] = PROP_INFO["C06"]["bounds"].replace("listed well-formed calls", "listed mis-aritied / ill-typed calls") 

# ----------------------------------------------------------------------------- C08 / C12
_PROC = ["query::js_path_process", "query::jp_query::<Vec<Segment> as Query>::process", "Segment::process", "Selector::process", "State::root"]
_C08P = [
    H("query", "c08_process_" + k, funcs=_PROC, symbolic=sym, shape=shape, est=20)
    for k, sym, shape in (("index_arr", "i in I-JSON, element payloads", "$[i] on an array of 3"), ("index_scalar", "i, scalar", "$[i] on an int"),
                          ("wild_arr", "element payloads", "$[*] on an array of 3"), ("wild_empty", "-", "$[*] on []"),
                          ("name_obj", "member values", "$.a on {b,a}"), ("name_arr", "payloads", "$.a on an array"), ("root", "scalar", "$ on an int"))
] + [
    H("query", "c08_process_slice_arr", funcs=_PROC + ["query::selector::process_slice"], symbolic="start,end,step each absent or in I-JSON, element payloads",
      shape="$[s:e:st] on an array of 3: always Ok, elements of the array, each at most once, monotone order", est=200, timeout=900),
]
_C08K = [
    H("selector", "c08_key_path_" + k, funcs=["query::state::Pointer::key"], symbolic=sym, shape="Pointer::key on path $ (no panic for any short member name)", est=8)
    for k, sym in (("any1", "one ASCII byte, any (quote, backslash, control characters included)"), ("any2", "two ASCII bytes, any"), ("empty", "- (the empty member name)"))
]
PROPS["C08"] = _C08P + _C08K + PROPS["C11"] + [h for h in PROPS["C01"] if "wrong_container" in h["name"] or "selectors_on" in h["name"]] + [PROPS["C06"][0]]
PROP_INFO["C08"] = {
    "bounds": "no-panic (Kani's overflow / bounds / unwrap / cast checks, all on) and always-Ok for: one-segment queries of each selector kind through js_path_process on arrays of 3, objects of 2, scalars, empty containers; index and slice arithmetic for every I-JSON integer (C11 harnesses); the parser's integer range check",
    "outside": ["the parser (pest) - panics in parse-tree handling are not covered", "stack exhaustion on deep documents / queries and wall-clock bounds (not expressible in CBMC)", "multi-segment pipelines, descendant recursion and filters after multi-node segments (measured out of reach)", "regex compilation"],
}
PROPS["C12"] = [
    H("query", "c12_history", funcs=_PROC, symbolic="two documents' payloads, two indices (I-JSON)", shape="q1 on d1, q2 on d2, q1 on d1 again", est=40),
    H("query", "c12_projections", funcs=_PROC + ["QueryRef::val", "QueryRef::path"], symbolic="payloads, index", shape="val() / path() of the evaluation result", est=60),
    H("query", "c12_history_wild", funcs=_PROC, symbolic="two documents' payloads, index (I-JSON)", shape="q1 on d1, $[*] on d2 and on d1, q1 on d1 again", est=100),
]
PROP_INFO["C12"] = {
    "bounds": "PARTIAL: sequential history independence and document immutability for one-segment index queries on arrays of 3; val()/path() projections of QueryRef",
    "outside": ["query / query_only_path / query_with_path and parse-once-vs-parse-each-time: all go through the pest parser (out of reach)", "concurrent use from several threads: Kani models sequential code only", "Send + Sync (a type-system fact, not a solver question)"],
    "level_text": "PARTIAL claim: bounded model checking of repeated evaluation of programmatically built one-segment queries; the string entry points (parser) and the schedule quantifier are outside the technique.",
}

# ----------------------------------------------------------------------------- C15
PROPS["C15"] = [
    H("comparison", "c15_scalar_" + k, funcs=_C04_FUNCS + ["<serde_json::Value as Queryable>::{as_i64,as_f64,as_str,as_bool}", "<Mini as Queryable>"],
      symbolic=sym, shape="eq / lt in both orders at T = serde_json::Value and at T = Mini on equal scalar content", est=15)
    for k, sym in (("int_int", "two i64"), ("float_float", "two finite f64"), ("int_float", "I-JSON int, finite f64"), ("bool_null", "bool"),
                   ("bool_bool", "two bools"), ("str_str", "1-byte and 2-byte UTF-8 scalars"), ("str_int", "1-byte scalar, i64"))
] + [
    H("comparison", "c15_null_literal_" + k, funcs=["query::comparison::Comparison::process", "query::comparable::Literal::process", "Queryable::null (Mini; Mini::default() is deliberately not null)"] + _C04_FUNCS,
      symbolic=sym, shape="null == @, null != @, null < @ with the node " + k, est=10)
    for k, sym in (("null", "-"), ("bool", "any bool (includes Mini::default())"), ("int", "any i64"))
]
PROPS["C15"] += _SCOPE
PROP_INFO["C15"] = {
    "bounds": "PARTIAL: relational check of the comparison kernels (==, <, >) instantiated at serde_json::Value and at the harness type Mini on equal scalar content of every scalar kind; the literal null compared with null/bool/int nodes at T = Mini whose Default is deliberately not its null; all other harnesses of this framework run the generic engine at T = Mini, i.e. already at a second Queryable implementation",
    "outside": ["whole-query relational runs over Value documents: serde_json's recursive drop glue / BTreeMap objects do not go through CBMC (measured: OOM / no verdict)", "<Value as Queryable>::get quote stripping on objects"],
    "level_text": "PARTIAL claim: bounded model checking of the generic comparison code at two Queryable instantiations with a relational assertion; object access and whole queries over serde_json::Value are outside reach.",
}
