"""Registry: which Kani harness decides which property, at which tier.

A harness entry: name (fully qualified), tiers, funcs (crate functions encoded),
symbolic (solver variables and ranges), shape (concrete container shape), role
(A = must pass; B.. = isolates a known-bad input class), est (seconds, for batching).
"""

DEFAULT_TIMEOUT = {"quick": 420, "thorough": 2400}
REACH_CHECKS = {"quick": False, "thorough": False}

ASSUMPTIONS = [
    "Kani 0.68.0 MIR->GOTO translation and CBMC 6.11.0/CaDiCaL are trusted",
    "S1: Vec::with_capacity{,_in} stubbed to a constant capacity K (4 elements / 32 bytes) with assert(requested <= K)",
    "S2: Global::{alloc,grow,shrink,deallocate}_impl_runtime stubbed: every heap block has a concrete size class (32/64/128/256 bytes), growth/shrink in place, larger requests assert(false) (VERIF-LIMIT), deallocation is a no-op",
    "S4: regex::Regex::new stubbed to Err (regex_automata cannot be compiled by Kani); match/search not covered",
    "S6: core::str::count::do_count_chars (strings >= 32 bytes only) stubbed to assert(false) (VERIF-LIMIT)",
    "S5: results and documents are mem::forget-ed; destructors are outside every claim",
    "A2: harness document type Mini (verif_common) is a faithful Queryable; checked against serde_json::Value in C15",
    "bounded claim: holds for all values of the symbolic inputs at the listed concrete shapes only",
]

M = {
    "selector": "query::selector::verif_kani::",
    "segment": "query::segment::verif_kani::",
    "state": "query::state::verif_kani::",
    "filter": "query::filter::verif_kani::",
    "atom": "query::atom::verif_kani::",
    "comparison": "query::comparison::verif_kani::",
    "comparable": "query::comparable::verif_kani::",
    "test_function": "query::test_function::verif_kani::",
    "queryable": "query::queryable::verif_kani::",
    "query": "query::verif_kani::",
    "parser": "parser::verif_kani::",
    "model": "parser::model::verif_kani::",
}


def H(mod, name, tiers="qt", funcs=(), symbolic="", shape="", role="A", est=30, timeout=None):
    d = {
        "name": M[mod] + name,
        "tiers": tuple({"q": "quick", "t": "thorough"}[c] for c in tiers),
        "funcs": list(funcs), "symbolic": symbolic, "shape": shape, "role": role, "est": est,
    }
    if timeout:
        d["timeout"] = timeout
    return d


PROPS = {}
PROP_INFO = {}

# ----------------------------------------------------------------------------- C11
PROPS["C11"] = [
    H("selector", "c11_index_len%d" % n, funcs=["query::selector::process_index"],
      symbolic="i in [-(2^53-1), 2^53-1]", shape="array of %d markers" % n, est=8)
    for n in (0, 1, 3, 4)
] + [
    H("selector", "c11_slice_len%d" % n, funcs=["query::selector::process_slice"],
      symbolic="start,end,step each absent or in [-(2^53-1), 2^53-1]", shape="array of %d markers" % n, est=e)
    for n, e in ((0, 10), (1, 30), (2, 60), (3, 200), (4, 400))
]
PROP_INFO["C11"] = {
    "bounds": {"quick": "array length in {0,1,3,4}; index/start/end/step any I-JSON integer or absent",
               "thorough": "same, plus more lengths"},
    "outside": ["arrays longer than 4 (K)", "integers outside the I-JSON range", "the parser's own range check"],
}

HOOK_COMMITS = ["fda5525"]

NOT_APPLICABLE = [
    {"property_id": "C09", "reason": "reference/reference_mut = pest parser + serde_json BTreeMap pointer lookup; neither goes through CBMC (parser: no verdict in 20 min on a 3-byte concrete input; 2-member BTreeMap lookup: OOM at 12 GB), and the function exists only for serde_json::Value"},
]

# ----------------------------------------------------------------------------- C04
_C04_FUNCS = ["query::comparison::eq", "query::comparison::lt", "query::comparison::eq_json"]
_C04 = """nothing_nothing nothing_null nothing_bool nothing_int nothing_float nothing_str nothing_arr nothing_obj
null_null null_bool null_int null_float null_str null_arr null_obj bool_bool bool_int bool_float bool_str bool_arr bool_obj
int_int iint_float float_float int_str int_arr int_obj float_str float_arr float_obj str1_str1 ascii2_ascii2 str1_ascii2 str_arr str_obj
arr_arr arr2_arr2 arr_arr2 arr_obj obj_obj obj_obj_ba obj_obj1""".split()
PROPS["C04"] = [
    H("comparison", "c04_" + n, funcs=_C04_FUNCS,
      symbolic="payloads of both operands (any i64 / I-JSON int / any finite f64 / any string of <=2 scalars / arrays of <=2 ints / objects of <=2 members), operand form value|node-ref",
      shape="operand kinds " + n.replace("_", " x "), est=8)
    for n in _C04
] + [
    H("comparison", "c04_str_str", tiers="t", funcs=_C04_FUNCS, symbolic="two strings of <= 2 arbitrary Unicode scalars each",
      shape="string x string", est=500, timeout=1800),
    H("comparison", "c04_roled_arr_if_fi", funcs=_C04_FUNCS, role="D",
      symbolic="array elements: I-JSON int and finite float", shape="[int,float] vs [float,int]", est=8),
]
PROP_INFO["C04"] = {
    "bounds": "one harness per unordered pair of operand kinds {nothing,null,bool,int,float,string,array,object}; strings <= 2 scalars, arrays <= 2 elements, objects <= 2 members; mixed int/float comparisons with the int in the I-JSON range",
    "outside": ["strings longer than 2 scalars", "containers nested deeper than 1", "u64 integers above i64::MAX", "integers outside I-JSON compared with floats", "operator token parsing (grammar)"],
}

# ----------------------------------------------------------------------------- C10
PROPS["C10"] = [
    H("test_function", "c10_length_" + k, funcs=["query::test_function::length"],
      symbolic=sym, shape=k + " argument as node reference and as value", est=e)
    for k, sym, e in (("str_empty", "-", 5), ("str_w1", "any 1-byte scalar", 10), ("str_w2", "any 2-byte scalar", 10), ("str_w3", "any 3-byte scalar", 10),
                      ("str_w4", "any 4-byte scalar (non-BMP)", 10), ("str_w1_3", "scalars of UTF-8 widths 1,3", 15), ("str_w4_4", "two non-BMP scalars", 20),
                      ("str_w1_1_1", "three ASCII bytes", 15), ("str_w2_4_1", "scalars of widths 2,4,1", 20),
                      ("arr", "array length 0..3, element payloads", 15), ("obj", "member count 0..3, payloads", 20),
                      ("int", "any i64", 5), ("float", "any finite f64", 5), ("bool", "any bool", 5), ("null", "-", 5),
                      ("nothing", "-", 5))
] + [
    H("test_function", "c10_count_" + k, funcs=["query::test_function::count"], symbolic="node payloads",
      shape="nodelist " + k, est=8) for k in ("refs0", "refs1", "refs3", "ref", "nothing")
] + [
    H("test_function", "c10_value_" + k, funcs=["query::test_function::value"], symbolic="node payloads",
      shape="nodelist " + k, est=8) for k in ("refs0", "refs1", "refs2", "refs3", "ref")
]
PROP_INFO["C10"] = {
    "bounds": "length: strings of 0..3 scalars at the listed UTF-8 width patterns (any content), arrays/objects <= 3 entries, every scalar kind, empty nodelist; count/value: nodelists of 0..3 nodes, single node, nothing",
    "outside": ["match() and search(): the regex crate cannot be compiled by Kani (ICE in regex_automata) - not claimed",
                "function-call parsing and typing (grammar / C07)", "strings longer than 2 scalars", "nodelists longer than 3"],
}

# ----------------------------------------------------------------------------- C14
_C14F = ["<serde_json::Value as Queryable>::extension_custom"]
PROPS["C14"] = [
    H("queryable", "c14_in_" + k, funcs=_C14F, symbolic="x payload; list [int, 1-byte string, [int]] truncated to n in 0..3, all payloads",
      shape="x kind " + k, est=30) for k in ("int", "str", "null", "bool", "nested")
] + [
    H("queryable", "c14_sets_ints_ints", funcs=_C14F, symbolic="A: 0..2 ints, B: 0..3 ints (any i64)", shape="int arrays", est=40),
    H("queryable", "c14_sets_ints_mixed", funcs=_C14F, symbolic="A: 0..2 ints, B: [int, string, [int]] truncated to 0..3", shape="int array vs mixed array", est=40),
    H("queryable", "c14_non_array", funcs=_C14F, symbolic="array of 0..3 ints, scalar int", shape="non-array / missing arguments for all five functions", est=40),
]
PROP_INFO["C14"] = {
    "bounds": "lists of 0..3 elements (ints any i64, 1-byte ASCII strings, one nested 1-element array), x of kind int/string/null/bool/nested array; A of 0..2 ints vs B of 0..3; non-array and missing arguments",
    "outside": ["lists longer than 3", "objects as elements (serde_json::Map is a BTreeMap: out of reach)", "float elements / mixed int-float membership (unspecified by the crate's documentation)",
                "function-call parsing (grammar)"],
}
