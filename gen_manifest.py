#!/usr/bin/env python3
"""Regenerates MANIFEST.json from registry.py (claimed properties) and the not-applicable list."""
import json, os, sys
sys.path.insert(0, os.path.dirname(os.path.abspath(__file__)))
import registry

checks = []
for pid in sorted(registry.PROPS):
    info = registry.PROP_INFO.get(pid, {})
    checks.append({
        "property_id": pid,
        "quick_cmd": "bin/check %s --tier quick" % pid,
        "thorough_cmd": "bin/check %s --tier thorough" % pid,
        "evidence_file": "evidence/%s.json" % pid,
        "replay_cmd_template": "bin/check --replay {path}",
        "engine": "kani-cbmc",
        "level_claimed": {
            "category": "model_checking",
            "text": info.get("level_text", "Bounded model checking of the compiled crate: Kani translates the MIR of /repo's working tree to a GOTO program, CBMC executes the listed unit functions symbolically and CaDiCaL decides the assertions for every value of the symbolic inputs at the listed concrete container shapes. Bounded claim; nothing outside the bounds is claimed."),
            "design_ref": info.get("design_ref", "DESIGN.md section 4"),
        },
        "level_note": info.get("level_note", "Trusted: Kani/CBMC/CaDiCaL; allocation stubs S1/S2 (constant size classes, VERIF-LIMIT assertions), fmt/regex stubs S3/S4 where listed, harness document type Mini (A2), RFC 9535 reference functions in kani/common.rs. Unwinding assertions on."),
        "technique": info.get("technique", "bounded model checking (Kani 0.68 / CBMC 6.11 / CaDiCaL) of the real code against an executable RFC 9535 specification; symbolic scalars, concrete shapes"),
    })

m = {
    "version": 1,
    "setup_cmd": "bin/setup",
    "hooks": {
        "guard": "cfg(kani)",
        "enable": "cargo kani sets --cfg=kani; harness modules /verif/kani/*.rs are mounted with #[cfg(kani)] #[path=...] mod verif_kani at the end of each crate module",
        "baseline_off_cmd": "cd /repo && cargo test --workspace --no-fail-fast --offline",
        "source_commits": registry.HOOK_COMMITS,
        "add_only": True,
    },
    "engines": [{
        "name": "kani-cbmc", "path": "bin/check",
        "serves_properties": sorted(registry.PROPS),
        "kind_free_text": "Kani 0.68.0 proof harnesses in /verif/kani mounted into the crate under cfg(kani); CBMC 6.11.0 + CaDiCaL decide them; runner parses logs, checks cover witnesses, replays counterexamples natively via cargo kani playback",
    }],
    "checks": checks,
    "not_applicable": registry.NOT_APPLICABLE,
    "notes": "Solver-based checking of the real code only. Exit 2 = inconclusive (timeout, OOM, harness bound exceeded, unsatisfied cover witness); never reported as success.",
}
json.dump(m, open(os.path.join(os.path.dirname(os.path.abspath(__file__)), "MANIFEST.json"), "w"), indent=1)
print("claimed:", sorted(registry.PROPS), "n/a:", [x["property_id"] for x in registry.NOT_APPLICABLE])
