// property=C06 harness=parser::verif_kani::c06_validate_js_str_w1_1 seed=0
// concrete counterexample produced by CBMC; run with: bin/check --replay /verif/evidence/replay/C06-c06_validate_js_str_w1_1.rs
// module=parser::verif_kani
/// Test generated for harness `parser::verif_kani::c06_validate_js_str_w1_1` 
///
/// Check for `assertion`: ""a string without control characters was rejected""
///
/// # Warning
///
/// Concrete playback tests combined with stubs or contracts is highly
/// experimental, and subject to change.
///
/// The original harness has stubs which are not applied to this test.
/// This may cause a mismatch of non-deterministic values if the stub
/// creates any non-deterministic value.
/// The execution path may also differ, which can be used to refine the stub
/// logic.

#[test]
fn kani_concrete_playback_c06_validate_js_str_w1_1_6509562100627956126() {
    let concrete_vals: Vec<Vec<u8>> = vec![
        // 64
        vec![64],
        // 0
        vec![0],
        // 0
        vec![0],
        // 0
        vec![0],
        // 127
        vec![127],
        // 0
        vec![0],
        // 0
        vec![0],
        // 0
        vec![0],
    ];
    kani::concrete_playback_run(concrete_vals, c06_validate_js_str_w1_1);
}

/// Test generated for harness `parser::verif_kani::c06_validate_js_str_w1_1` 
///
/// Check for `cover`: "control character present"
///
/// # Warning
///
/// Concrete playback tests combined with stubs or contracts is highly
/// experimental, and subject to change.
///
/// The original harness has stubs which are not applied to this test.
/// This may cause a mismatch of non-deterministic values if the stub
/// creates any non-deterministic value.
/// The execution path may also differ, which can be used to refine the stub
/// logic.

#[test]
fn kani_concrete_playback_c06_validate_js_str_w1_1_2822570003364086166() {
    let concrete_vals: Vec<Vec<u8>> = vec![
        // 31
        vec![31],
        // 255
        vec![255],
        // 255
        vec![255],
        // 255
        vec![255],
        // 31
        vec![31],
        // 255
        vec![255],
        // 255
        vec![255],
        // 255
        vec![255],
    ];
    kani::concrete_playback_run(concrete_vals, c06_validate_js_str_w1_1);
}

/// Test generated for harness `parser::verif_kani::c06_validate_js_str_w1_1` 
///
/// Check for `cover`: "no control character"
///
/// # Warning
///
/// Concrete playback tests combined with stubs or contracts is highly
/// experimental, and subject to change.
///
/// The original harness has stubs which are not applied to this test.
/// This may cause a mismatch of non-deterministic values if the stub
/// creates any non-deterministic value.
/// The execution path may also differ, which can be used to refine the stub
/// logic.

#[test]
fn kani_concrete_playback_c06_validate_js_str_w1_1_16417779784334845293() {
    let concrete_vals: Vec<Vec<u8>> = vec![
        // 32
        vec![32],
        // 255
        vec![255],
        // 255
        vec![255],
        // 255
        vec![255],
        // 32
        vec![32],
        // 255
        vec![255],
        // 255
        vec![255],
        // 255
        vec![255],
    ];
    kani::concrete_playback_run(concrete_vals, c06_validate_js_str_w1_1);
}

