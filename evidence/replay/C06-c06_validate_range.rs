// property=C06 harness=parser::verif_kani::c06_validate_range seed=0
// concrete counterexample produced by CBMC; run with: bin/check --replay /verif/evidence/replay/C06-c06_validate_range.rs
// module=parser::verif_kani
/// Test generated for harness `parser::verif_kani::c06_validate_range` 
///
/// Check for `assertion`: ""an integer inside the I-JSON range was rejected""
///
/// # Warning
///
/// Concrete playback tests combined with stubs or contracts is highly
/// experimental, and subject to change.
///
/// The original harness has stubs which are not applied to this test.
/// This may cause a mismatch of non-deterministic values if the stub
/// creates any non-deterministic value.
/// The execution path may also differ, which can be used to refine the stub
/// logic.

#[test]
fn kani_concrete_playback_c06_validate_range_11113871888470378585() {
    let concrete_vals: Vec<Vec<u8>> = vec![
        // 9007199254740991
        vec![255, 255, 255, 255, 255, 255, 31, 0],
    ];
    kani::concrete_playback_run(concrete_vals, c06_validate_range);
}

/// Test generated for harness `parser::verif_kani::c06_validate_range` 
///
/// Check for `cover`: "lower bound accepted"
///
/// # Warning
///
/// Concrete playback tests combined with stubs or contracts is highly
/// experimental, and subject to change.
///
/// The original harness has stubs which are not applied to this test.
/// This may cause a mismatch of non-deterministic values if the stub
/// creates any non-deterministic value.
/// The execution path may also differ, which can be used to refine the stub
/// logic.

#[test]
fn kani_concrete_playback_c06_validate_range_20299430589527422() {
    let concrete_vals: Vec<Vec<u8>> = vec![
        // -9007199254740991
        vec![1, 0, 0, 0, 0, 0, 224, 255],
    ];
    kani::concrete_playback_run(concrete_vals, c06_validate_range);
}

/// Test generated for harness `parser::verif_kani::c06_validate_range` 
///
/// Check for `cover`: "just above"
///
/// # Warning
///
/// Concrete playback tests combined with stubs or contracts is highly
/// experimental, and subject to change.
///
/// The original harness has stubs which are not applied to this test.
/// This may cause a mismatch of non-deterministic values if the stub
/// creates any non-deterministic value.
/// The execution path may also differ, which can be used to refine the stub
/// logic.

#[test]
fn kani_concrete_playback_c06_validate_range_15555268254771495805() {
    let concrete_vals: Vec<Vec<u8>> = vec![
        // 9007199254740992
        vec![0, 0, 0, 0, 0, 0, 32, 0],
    ];
    kani::concrete_playback_run(concrete_vals, c06_validate_range);
}

/// Test generated for harness `parser::verif_kani::c06_validate_range` 
///
/// Check for `cover`: "i64::MIN"
///
/// # Warning
///
/// Concrete playback tests combined with stubs or contracts is highly
/// experimental, and subject to change.
///
/// The original harness has stubs which are not applied to this test.
/// This may cause a mismatch of non-deterministic values if the stub
/// creates any non-deterministic value.
/// The execution path may also differ, which can be used to refine the stub
/// logic.

#[test]
fn kani_concrete_playback_c06_validate_range_12331969969241051576() {
    let concrete_vals: Vec<Vec<u8>> = vec![
        // -9223372036854775808
        vec![0, 0, 0, 0, 0, 0, 0, 128],
    ];
    kani::concrete_playback_run(concrete_vals, c06_validate_range);
}

