// property=C13 harness=query::comparison::verif_kani::c13_num_spelling_vs_float seed=0
// concrete counterexample produced by CBMC; run with: bin/check --replay /verif/evidence/replay/C13-c13_num_spelling_vs_float.rs
// module=query::comparison::verif_kani
/// Test generated for harness `query::comparison::verif_kani::c13_num_spelling_vs_float` 
///
/// Check for `assertion`: ""int and float spelling of one number must be < the same nodes""
///
/// # Warning
///
/// Concrete playback tests combined with stubs or contracts is highly
/// experimental, and subject to change.
///
/// The original harness has stubs which are not applied to this test.
/// This may cause a mismatch of non-deterministic values if the stub
/// creates any non-deterministic value.
/// The execution path may also differ, which can be used to refine the stub
/// logic.

#[test]
fn kani_concrete_playback_c13_num_spelling_vs_float_9910950108276198464() {
    let concrete_vals: Vec<Vec<u8>> = vec![
        // 5027
        vec![163, 19, 0, 0, 0, 0, 0, 0],
        // 5027.282708
        vec![0, 0, 144, 95, 72, 163, 179, 64],
    ];
    kani::concrete_playback_run(concrete_vals, c13_num_spelling_vs_float);
}

/// Test generated for harness `query::comparison::verif_kani::c13_num_spelling_vs_float` 
///
/// Check for `assertion`: ""int and float spelling of one number must be > the same nodes""
///
/// # Warning
///
/// Concrete playback tests combined with stubs or contracts is highly
/// experimental, and subject to change.
///
/// The original harness has stubs which are not applied to this test.
/// This may cause a mismatch of non-deterministic values if the stub
/// creates any non-deterministic value.
/// The execution path may also differ, which can be used to refine the stub
/// logic.

#[test]
fn kani_concrete_playback_c13_num_spelling_vs_float_11465645176937977525() {
    let concrete_vals: Vec<Vec<u8>> = vec![
        // -1
        vec![255, 255, 255, 255, 255, 255, 255, 255],
        // -2
        vec![255, 255, 255, 255, 255, 255, 255, 191],
    ];
    kani::concrete_playback_run(concrete_vals, c13_num_spelling_vs_float);
}

/// Test generated for harness `query::comparison::verif_kani::c13_num_spelling_vs_float` 
///
/// Check for `cover`: "equal"
///
/// # Warning
///
/// Concrete playback tests combined with stubs or contracts is highly
/// experimental, and subject to change.
///
/// The original harness has stubs which are not applied to this test.
/// This may cause a mismatch of non-deterministic values if the stub
/// creates any non-deterministic value.
/// The execution path may also differ, which can be used to refine the stub
/// logic.

#[test]
fn kani_concrete_playback_c13_num_spelling_vs_float_14369334891986765334() {
    let concrete_vals: Vec<Vec<u8>> = vec![
        // 0
        vec![0, 0, 0, 0, 0, 0, 0, 0],
        // 0
        vec![0, 0, 0, 0, 0, 0, 0, 0],
    ];
    kani::concrete_playback_run(concrete_vals, c13_num_spelling_vs_float);
}

/// Test generated for harness `query::comparison::verif_kani::c13_num_spelling_vs_float` 
///
/// Check for `cover`: "less"
///
/// # Warning
///
/// Concrete playback tests combined with stubs or contracts is highly
/// experimental, and subject to change.
///
/// The original harness has stubs which are not applied to this test.
/// This may cause a mismatch of non-deterministic values if the stub
/// creates any non-deterministic value.
/// The execution path may also differ, which can be used to refine the stub
/// logic.

#[test]
fn kani_concrete_playback_c13_num_spelling_vs_float_1029399334492198508() {
    let concrete_vals: Vec<Vec<u8>> = vec![
        // -1
        vec![255, 255, 255, 255, 255, 255, 255, 255],
        // 2
        vec![255, 255, 255, 255, 255, 255, 255, 63],
    ];
    kani::concrete_playback_run(concrete_vals, c13_num_spelling_vs_float);
}

