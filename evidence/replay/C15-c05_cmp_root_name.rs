// property=C15 harness=query::comparison::verif_kani::c05_cmp_root_name seed=0
// concrete counterexample produced by CBMC; run with: bin/check --replay /verif/evidence/replay/C15-c05_cmp_root_name.rs
// module=query::comparison::verif_kani
/// Test generated for harness `query::comparison::verif_kani::c05_cmp_root_name` 
///
/// Check for `assertion`: ""`$.k == @` must compare member k of the document root with the current node""
///
/// # Warning
///
/// Concrete playback tests combined with stubs or contracts is highly
/// experimental, and subject to change.
///
/// The original harness has stubs which are not applied to this test.
/// This may cause a mismatch of non-deterministic values if the stub
/// creates any non-deterministic value.
/// The execution path may also differ, which can be used to refine the stub
/// logic.

#[test]
fn kani_concrete_playback_c05_cmp_root_name_13698109601054684254() {
    let concrete_vals: Vec<Vec<u8>> = vec![
        // 0l
        vec![0, 0, 0, 0, 0, 0, 0, 0],
        // 0l
        vec![0, 0, 0, 0, 0, 0, 0, 0],
        // 0l
        vec![0, 0, 0, 0, 0, 0, 0, 0],
        // 2ul
        vec![2, 0, 0, 0, 0, 0, 0, 0],
    ];
    kani::concrete_playback_run(concrete_vals, c05_cmp_root_name);
}

/// Test generated for harness `query::comparison::verif_kani::c05_cmp_root_name` 
///
/// Check for `cover`: "different"
///
/// # Warning
///
/// Concrete playback tests combined with stubs or contracts is highly
/// experimental, and subject to change.
///
/// The original harness has stubs which are not applied to this test.
/// This may cause a mismatch of non-deterministic values if the stub
/// creates any non-deterministic value.
/// The execution path may also differ, which can be used to refine the stub
/// logic.

#[test]
fn kani_concrete_playback_c05_cmp_root_name_515625094151752699() {
    let concrete_vals: Vec<Vec<u8>> = vec![
        // 0l
        vec![0, 0, 0, 0, 0, 0, 0, 0],
        // -9223372036854775808l
        vec![0, 0, 0, 0, 0, 0, 0, 128],
        // 0l
        vec![0, 0, 0, 0, 0, 0, 0, 0],
        // 2ul
        vec![2, 0, 0, 0, 0, 0, 0, 0],
    ];
    kani::concrete_playback_run(concrete_vals, c05_cmp_root_name);
}

