// no concrete playback test produced for query::selector::verif_kani::c03_slice_route_fixed
