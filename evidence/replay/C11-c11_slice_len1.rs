// property=C11 harness=query::selector::verif_kani::c11_slice_len1 seed=0
// concrete counterexample produced by CBMC; run with: bin/check --replay /verif/evidence/replay/C11-c11_slice_len1.rs
// module=query::selector::verif_kani
/// Test generated for harness `query::selector::verif_kani::c11_slice_len1` 
///
/// Check for `assertion`: ""slice selected a different number of elements than RFC 9535""
///
/// # Warning
///
/// Concrete playback tests combined with stubs or contracts is highly
/// experimental, and subject to change.
///
/// The original harness has stubs which are not applied to this test.
/// This may cause a mismatch of non-deterministic values if the stub
/// creates any non-deterministic value.
/// The execution path may also differ, which can be used to refine the stub
/// logic.

#[test]
fn kani_concrete_playback_c11_slice_len1_2276902113674186135() {
    let concrete_vals: Vec<Vec<u8>> = vec![
        // 1
        vec![1],
        // -7881299347898369
        vec![255, 255, 255, 255, 255, 255, 227, 255],
        // 1
        vec![1],
        // 9007199254740991
        vec![255, 255, 255, 255, 255, 255, 31, 0],
        // 1
        vec![1],
        // 7881299347898370
        vec![2, 0, 0, 0, 0, 0, 28, 0],
    ];
    kani::concrete_playback_run(concrete_vals, c11_slice_len1);
}

/// Test generated for harness `query::selector::verif_kani::c11_slice_len1` 
///
/// Check for `cover`: "negative step, several elements"
///
/// # Warning
///
/// Concrete playback tests combined with stubs or contracts is highly
/// experimental, and subject to change.
///
/// The original harness has stubs which are not applied to this test.
/// This may cause a mismatch of non-deterministic values if the stub
/// creates any non-deterministic value.
/// The execution path may also differ, which can be used to refine the stub
/// logic.

#[test]
fn kani_concrete_playback_c11_slice_len1_4213239612338932569() {
    let concrete_vals: Vec<Vec<u8>> = vec![
        // 0
        vec![0],
        // 0
        vec![0, 0, 0, 0, 0, 0, 0, 0],
        // 0
        vec![0],
        // 0
        vec![0, 0, 0, 0, 0, 0, 0, 0],
        // 0
        vec![0],
        // 0
        vec![0, 0, 0, 0, 0, 0, 0, 0],
    ];
    kani::concrete_playback_run(concrete_vals, c11_slice_len1);
}

/// Test generated for harness `query::selector::verif_kani::c11_slice_len1` 
///
/// Check for `cover`: "negative step, start absent"
///
/// # Warning
///
/// Concrete playback tests combined with stubs or contracts is highly
/// experimental, and subject to change.
///
/// The original harness has stubs which are not applied to this test.
/// This may cause a mismatch of non-deterministic values if the stub
/// creates any non-deterministic value.
/// The execution path may also differ, which can be used to refine the stub
/// logic.

#[test]
fn kani_concrete_playback_c11_slice_len1_11625025181641859172() {
    let concrete_vals: Vec<Vec<u8>> = vec![
        // 0
        vec![0],
        // 4398046511103
        vec![255, 255, 255, 255, 255, 3, 0, 0],
        // 1
        vec![1],
        // -2
        vec![254, 255, 255, 255, 255, 255, 255, 255],
        // 1
        vec![1],
        // -2
        vec![254, 255, 255, 255, 255, 255, 255, 255],
    ];
    kani::concrete_playback_run(concrete_vals, c11_slice_len1);
}

/// Test generated for harness `query::selector::verif_kani::c11_slice_len1` 
///
/// Check for `cover`: "step zero"
///
/// # Warning
///
/// Concrete playback tests combined with stubs or contracts is highly
/// experimental, and subject to change.
///
/// The original harness has stubs which are not applied to this test.
/// This may cause a mismatch of non-deterministic values if the stub
/// creates any non-deterministic value.
/// The execution path may also differ, which can be used to refine the stub
/// logic.

#[test]
fn kani_concrete_playback_c11_slice_len1_8424705747082522880() {
    let concrete_vals: Vec<Vec<u8>> = vec![
        // 1
        vec![1],
        // 0
        vec![0, 0, 0, 0, 0, 0, 0, 0],
        // 1
        vec![1],
        // -9007199254740991
        vec![1, 0, 0, 0, 0, 0, 224, 255],
        // 1
        vec![1],
        // 0
        vec![0, 0, 0, 0, 0, 0, 0, 0],
    ];
    kani::concrete_playback_run(concrete_vals, c11_slice_len1);
}

