// no concrete playback test produced for query::segment::verif_kani::c02_selectors_idx_idx
