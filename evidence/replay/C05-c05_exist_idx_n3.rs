// property=C05 harness=query::filter::verif_kani::c05_exist_idx_n3 seed=0
// concrete counterexample produced by CBMC; run with: bin/check --replay /verif/evidence/replay/C05-c05_exist_idx_n3.rs
// module=query::filter::verif_kani
/// Test generated for harness `query::filter::verif_kani::c05_exist_idx_n3` 
///
/// Check for `assertion`: ""existence test over an index must be true exactly when that element exists""
///
/// # Warning
///
/// Concrete playback tests combined with stubs or contracts is highly
/// experimental, and subject to change.
///
/// The original harness has stubs which are not applied to this test.
/// This may cause a mismatch of non-deterministic values if the stub
/// creates any non-deterministic value.
/// The execution path may also differ, which can be used to refine the stub
/// logic.

#[test]
fn kani_concrete_playback_c05_exist_idx_n3_1641177489512661540() {
    let concrete_vals: Vec<Vec<u8>> = vec![
        // 3ul
        vec![3, 0, 0, 0, 0, 0, 0, 0],
        // 1
        vec![1],
        // -1l
        vec![255, 255, 255, 255, 255, 255, 255, 255],
    ];
    kani::concrete_playback_run(concrete_vals, c05_exist_idx_n3);
}

/// Test generated for harness `query::filter::verif_kani::c05_exist_idx_n3` 
///
/// Check for `cover`: "non-negative index addressing an existing element"
///
/// # Warning
///
/// Concrete playback tests combined with stubs or contracts is highly
/// experimental, and subject to change.
///
/// The original harness has stubs which are not applied to this test.
/// This may cause a mismatch of non-deterministic values if the stub
/// creates any non-deterministic value.
/// The execution path may also differ, which can be used to refine the stub
/// logic.

#[test]
fn kani_concrete_playback_c05_exist_idx_n3_15269477320173185928() {
    let concrete_vals: Vec<Vec<u8>> = vec![
        // 3ul
        vec![3, 0, 0, 0, 0, 0, 0, 0],
        // 1
        vec![1],
        // 1l
        vec![1, 0, 0, 0, 0, 0, 0, 0],
    ];
    kani::concrete_playback_run(concrete_vals, c05_exist_idx_n3);
}

/// Test generated for harness `query::filter::verif_kani::c05_exist_idx_n3` 
///
/// Check for `cover`: "no such element"
///
/// # Warning
///
/// Concrete playback tests combined with stubs or contracts is highly
/// experimental, and subject to change.
///
/// The original harness has stubs which are not applied to this test.
/// This may cause a mismatch of non-deterministic values if the stub
/// creates any non-deterministic value.
/// The execution path may also differ, which can be used to refine the stub
/// logic.

#[test]
fn kani_concrete_playback_c05_exist_idx_n3_9701178722527049325() {
    let concrete_vals: Vec<Vec<u8>> = vec![
        // 3ul
        vec![3, 0, 0, 0, 0, 0, 0, 0],
        // 1
        vec![1],
        // -8725724278030338l
        vec![254, 255, 255, 255, 255, 255, 224, 255],
    ];
    kani::concrete_playback_run(concrete_vals, c05_exist_idx_n3);
}

