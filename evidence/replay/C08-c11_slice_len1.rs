// property=C08 harness=query::selector::verif_kani::c11_slice_len1 seed=0
// concrete counterexample produced by CBMC; run with: bin/check --replay /verif/evidence/replay/C08-c11_slice_len1.rs
// module=query::selector::verif_kani
/// Test generated for harness `query::selector::verif_kani::c11_slice_len1` 
///
/// Check for `assertion`: ""Vec::with_capacity: capacity overflow (panics in the real allocator path)""
///
/// # Warning
///
/// Concrete playback tests combined with stubs or contracts is highly
/// experimental, and subject to change.
///
/// The original harness has stubs which are not applied to this test.
/// This may cause a mismatch of non-deterministic values if the stub
/// creates any non-deterministic value.
/// The execution path may also differ, which can be used to refine the stub
/// logic.

#[test]
fn kani_concrete_playback_c11_slice_len1_4994121421058584121() {
    let concrete_vals: Vec<Vec<u8>> = vec![
        // 1
        vec![1],
        // 1
        vec![1, 0, 0, 0, 0, 0, 0, 0],
        // 1
        vec![1],
        // -9
        vec![247, 255, 255, 255, 255, 255, 255, 255],
        // 1
        vec![1],
        // 1
        vec![1, 0, 0, 0, 0, 0, 0, 0],
    ];
    kani::concrete_playback_run(concrete_vals, c11_slice_len1);
}

/// Test generated for harness `query::selector::verif_kani::c11_slice_len1` 
///
/// Check for `cover`: "negative step, several elements"
///
/// # Warning
///
/// Concrete playback tests combined with stubs or contracts is highly
/// experimental, and subject to change.
///
/// The original harness has stubs which are not applied to this test.
/// This may cause a mismatch of non-deterministic values if the stub
/// creates any non-deterministic value.
/// The execution path may also differ, which can be used to refine the stub
/// logic.

#[test]
fn kani_concrete_playback_c11_slice_len1_4213239612338932569() {
    let concrete_vals: Vec<Vec<u8>> = vec![
        // 0
        vec![0],
        // 0
        vec![0, 0, 0, 0, 0, 0, 0, 0],
        // 0
        vec![0],
        // 0
        vec![0, 0, 0, 0, 0, 0, 0, 0],
        // 0
        vec![0],
        // 0
        vec![0, 0, 0, 0, 0, 0, 0, 0],
    ];
    kani::concrete_playback_run(concrete_vals, c11_slice_len1);
}

/// Test generated for harness `query::selector::verif_kani::c11_slice_len1` 
///
/// Check for `cover`: "negative step, start absent"
///
/// # Warning
///
/// Concrete playback tests combined with stubs or contracts is highly
/// experimental, and subject to change.
///
/// The original harness has stubs which are not applied to this test.
/// This may cause a mismatch of non-deterministic values if the stub
/// creates any non-deterministic value.
/// The execution path may also differ, which can be used to refine the stub
/// logic.

#[test]
fn kani_concrete_playback_c11_slice_len1_6471482367038384368() {
    let concrete_vals: Vec<Vec<u8>> = vec![
        // 0
        vec![0],
        // 1
        vec![1, 0, 0, 0, 0, 0, 0, 0],
        // 1
        vec![1],
        // -8969669830508541
        vec![3, 0, 0, 0, 34, 34, 224, 255],
        // 1
        vec![1],
        // -6755399441055744
        vec![0, 0, 0, 0, 0, 0, 232, 255],
    ];
    kani::concrete_playback_run(concrete_vals, c11_slice_len1);
}

/// Test generated for harness `query::selector::verif_kani::c11_slice_len1` 
///
/// Check for `cover`: "whole array, end absent"
///
/// # Warning
///
/// Concrete playback tests combined with stubs or contracts is highly
/// experimental, and subject to change.
///
/// The original harness has stubs which are not applied to this test.
/// This may cause a mismatch of non-deterministic values if the stub
/// creates any non-deterministic value.
/// The execution path may also differ, which can be used to refine the stub
/// logic.

#[test]
fn kani_concrete_playback_c11_slice_len1_4213239612338932569() {
    let concrete_vals: Vec<Vec<u8>> = vec![
        // 0
        vec![0],
        // 0
        vec![0, 0, 0, 0, 0, 0, 0, 0],
        // 0
        vec![0],
        // 0
        vec![0, 0, 0, 0, 0, 0, 0, 0],
        // 0
        vec![0],
        // 0
        vec![0, 0, 0, 0, 0, 0, 0, 0],
    ];
    kani::concrete_playback_run(concrete_vals, c11_slice_len1);
}

/// Test generated for harness `query::selector::verif_kani::c11_slice_len1` 
///
/// Check for `cover`: "step zero"
///
/// # Warning
///
/// Concrete playback tests combined with stubs or contracts is highly
/// experimental, and subject to change.
///
/// The original harness has stubs which are not applied to this test.
/// This may cause a mismatch of non-deterministic values if the stub
/// creates any non-deterministic value.
/// The execution path may also differ, which can be used to refine the stub
/// logic.

#[test]
fn kani_concrete_playback_c11_slice_len1_11245232189408078947() {
    let concrete_vals: Vec<Vec<u8>> = vec![
        // 1
        vec![1],
        // -4503599627370496
        vec![0, 0, 0, 0, 0, 0, 240, 255],
        // 1
        vec![1],
        // 4194304
        vec![0, 0, 64, 0, 0, 0, 0, 0],
        // 1
        vec![1],
        // 0
        vec![0, 0, 0, 0, 0, 0, 0, 0],
    ];
    kani::concrete_playback_run(concrete_vals, c11_slice_len1);
}

