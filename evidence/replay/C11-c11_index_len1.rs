// property=C11 harness=query::selector::verif_kani::c11_index_len1 seed=0
// concrete counterexample produced by CBMC; run with: bin/check --replay /verif/evidence/replay/C11-c11_index_len1.rs
// module=query::selector::verif_kani
/// Test generated for harness `query::selector::verif_kani::c11_index_len1` 
///
/// Check for `assertion`: ""index selected nothing where RFC selects a node""
///
/// # Warning
///
/// Concrete playback tests combined with stubs or contracts is highly
/// experimental, and subject to change.
///
/// The original harness has stubs which are not applied to this test.
/// This may cause a mismatch of non-deterministic values if the stub
/// creates any non-deterministic value.
/// The execution path may also differ, which can be used to refine the stub
/// logic.

#[test]
fn kani_concrete_playback_c11_index_len1_10690615873727005955() {
    let concrete_vals: Vec<Vec<u8>> = vec![
        // -1
        vec![255, 255, 255, 255, 255, 255, 255, 255],
    ];
    kani::concrete_playback_run(concrete_vals, c11_index_len1);
}

/// Test generated for harness `query::selector::verif_kani::c11_index_len1` 
///
/// Check for `cover`: "negative index out of range"
///
/// # Warning
///
/// Concrete playback tests combined with stubs or contracts is highly
/// experimental, and subject to change.
///
/// The original harness has stubs which are not applied to this test.
/// This may cause a mismatch of non-deterministic values if the stub
/// creates any non-deterministic value.
/// The execution path may also differ, which can be used to refine the stub
/// logic.

#[test]
fn kani_concrete_playback_c11_index_len1_12368692792576676961() {
    let concrete_vals: Vec<Vec<u8>> = vec![
        // -2251799813685248
        vec![0, 0, 0, 0, 0, 0, 248, 255],
    ];
    kani::concrete_playback_run(concrete_vals, c11_index_len1);
}

/// Test generated for harness `query::selector::verif_kani::c11_index_len1` 
///
/// Check for `cover`: "positive index out of range"
///
/// # Warning
///
/// Concrete playback tests combined with stubs or contracts is highly
/// experimental, and subject to change.
///
/// The original harness has stubs which are not applied to this test.
/// This may cause a mismatch of non-deterministic values if the stub
/// creates any non-deterministic value.
/// The execution path may also differ, which can be used to refine the stub
/// logic.

#[test]
fn kani_concrete_playback_c11_index_len1_5279015546558878075() {
    let concrete_vals: Vec<Vec<u8>> = vec![
        // 281474976710656
        vec![0, 0, 0, 0, 0, 0, 1, 0],
    ];
    kani::concrete_playback_run(concrete_vals, c11_index_len1);
}

