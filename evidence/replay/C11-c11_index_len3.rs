// property=C11 harness=query::selector::verif_kani::c11_index_len3 seed=0
// concrete counterexample produced by CBMC; run with: bin/check --replay /verif/evidence/replay/C11-c11_index_len3.rs
// module=query::selector::verif_kani
/// Test generated for harness `query::selector::verif_kani::c11_index_len3` 
///
/// Check for `assertion`: ""index selected nothing where RFC selects a node""
///
/// # Warning
///
/// Concrete playback tests combined with stubs or contracts is highly
/// experimental, and subject to change.
///
/// The original harness has stubs which are not applied to this test.
/// This may cause a mismatch of non-deterministic values if the stub
/// creates any non-deterministic value.
/// The execution path may also differ, which can be used to refine the stub
/// logic.

#[test]
fn kani_concrete_playback_c11_index_len3_15929870880316094714() {
    let concrete_vals: Vec<Vec<u8>> = vec![
        // -3
        vec![253, 255, 255, 255, 255, 255, 255, 255],
    ];
    kani::concrete_playback_run(concrete_vals, c11_index_len3);
}

/// Test generated for harness `query::selector::verif_kani::c11_index_len3` 
///
/// Check for `cover`: "negative index in range"
///
/// # Warning
///
/// Concrete playback tests combined with stubs or contracts is highly
/// experimental, and subject to change.
///
/// The original harness has stubs which are not applied to this test.
/// This may cause a mismatch of non-deterministic values if the stub
/// creates any non-deterministic value.
/// The execution path may also differ, which can be used to refine the stub
/// logic.

#[test]
fn kani_concrete_playback_c11_index_len3_7215894816316066936() {
    let concrete_vals: Vec<Vec<u8>> = vec![
        // -1
        vec![255, 255, 255, 255, 255, 255, 255, 255],
    ];
    kani::concrete_playback_run(concrete_vals, c11_index_len3);
}

/// Test generated for harness `query::selector::verif_kani::c11_index_len3` 
///
/// Check for `cover`: "negative index out of range"
///
/// # Warning
///
/// Concrete playback tests combined with stubs or contracts is highly
/// experimental, and subject to change.
///
/// The original harness has stubs which are not applied to this test.
/// This may cause a mismatch of non-deterministic values if the stub
/// creates any non-deterministic value.
/// The execution path may also differ, which can be used to refine the stub
/// logic.

#[test]
fn kani_concrete_playback_c11_index_len3_8569715981247876192() {
    let concrete_vals: Vec<Vec<u8>> = vec![
        // -4
        vec![252, 255, 255, 255, 255, 255, 255, 255],
    ];
    kani::concrete_playback_run(concrete_vals, c11_index_len3);
}

/// Test generated for harness `query::selector::verif_kani::c11_index_len3` 
///
/// Check for `cover`: "positive index out of range"
///
/// # Warning
///
/// Concrete playback tests combined with stubs or contracts is highly
/// experimental, and subject to change.
///
/// The original harness has stubs which are not applied to this test.
/// This may cause a mismatch of non-deterministic values if the stub
/// creates any non-deterministic value.
/// The execution path may also differ, which can be used to refine the stub
/// logic.

#[test]
fn kani_concrete_playback_c11_index_len3_803991678160381996() {
    let concrete_vals: Vec<Vec<u8>> = vec![
        // 9007199254740991
        vec![255, 255, 255, 255, 255, 255, 31, 0],
    ];
    kani::concrete_playback_run(concrete_vals, c11_index_len3);
}

