// property=C15 harness=query::comparison::verif_kani::c15_null_literal_null seed=0
// concrete counterexample produced by CBMC; run with: bin/check --replay /verif/evidence/replay/C15-c15_null_literal_null.rs
// module=query::comparison::verif_kani
/// Test generated for harness `query::comparison::verif_kani::c15_null_literal_null` 
///
/// Check for `assertion`: ""`null == @` must hold exactly when the node is null""
///
/// # Warning
///
/// Concrete playback tests combined with stubs or contracts is highly
/// experimental, and subject to change.
///
/// The original harness has stubs which are not applied to this test.
/// This may cause a mismatch of non-deterministic values if the stub
/// creates any non-deterministic value.
/// The execution path may also differ, which can be used to refine the stub
/// logic.

#[test]
fn kani_concrete_playback_c15_null_literal_null_3033838541362840399() {
    let concrete_vals: Vec<Vec<u8>> = vec![
    ];
    kani::concrete_playback_run(concrete_vals, c15_null_literal_null);
}

