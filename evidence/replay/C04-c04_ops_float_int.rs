// property=C04 harness=query::comparison::verif_kani::c04_ops_float_int seed=0
// concrete counterexample produced by CBMC; run with: bin/check --replay /verif/evidence/replay/C04-c04_ops_float_int.rs
// module=query::comparison::verif_kani
/// Test generated for harness `query::comparison::verif_kani::c04_ops_float_int` 
///
/// Check for `assertion`: ""`<` differs from RFC 9535""
///
/// # Warning
///
/// Concrete playback tests combined with stubs or contracts is highly
/// experimental, and subject to change.
///
/// The original harness has stubs which are not applied to this test.
/// This may cause a mismatch of non-deterministic values if the stub
/// creates any non-deterministic value.
/// The execution path may also differ, which can be used to refine the stub
/// logic.

#[test]
fn kani_concrete_playback_c04_ops_float_int_12253334630875921857() {
    let concrete_vals: Vec<Vec<u8>> = vec![
        // -0.5
        vec![0, 0, 4, 0, 0, 0, 224, 191],
        // 2l
        vec![2, 0, 0, 0, 0, 0, 0, 0],
    ];
    kani::concrete_playback_run(concrete_vals, c04_ops_float_int);
}

/// Test generated for harness `query::comparison::verif_kani::c04_ops_float_int` 
///
/// Check for `assertion`: ""`>` must be the mirrored `<`""
///
/// # Warning
///
/// Concrete playback tests combined with stubs or contracts is highly
/// experimental, and subject to change.
///
/// The original harness has stubs which are not applied to this test.
/// This may cause a mismatch of non-deterministic values if the stub
/// creates any non-deterministic value.
/// The execution path may also differ, which can be used to refine the stub
/// logic.

#[test]
fn kani_concrete_playback_c04_ops_float_int_14546903697652049059() {
    let concrete_vals: Vec<Vec<u8>> = vec![
        // -0.5
        vec![0, 0, 4, 0, 0, 0, 224, 191],
        // -4503599627370495l
        vec![1, 0, 0, 0, 0, 0, 240, 255],
    ];
    kani::concrete_playback_run(concrete_vals, c04_ops_float_int);
}

/// Test generated for harness `query::comparison::verif_kani::c04_ops_float_int` 
///
/// Check for `cover`: "equal operands"
///
/// # Warning
///
/// Concrete playback tests combined with stubs or contracts is highly
/// experimental, and subject to change.
///
/// The original harness has stubs which are not applied to this test.
/// This may cause a mismatch of non-deterministic values if the stub
/// creates any non-deterministic value.
/// The execution path may also differ, which can be used to refine the stub
/// logic.

#[test]
fn kani_concrete_playback_c04_ops_float_int_6847621178322783870() {
    let concrete_vals: Vec<Vec<u8>> = vec![
        // -0
        vec![0, 0, 0, 0, 0, 0, 0, 128],
        // 0l
        vec![0, 0, 0, 0, 0, 0, 0, 0],
    ];
    kani::concrete_playback_run(concrete_vals, c04_ops_float_int);
}

