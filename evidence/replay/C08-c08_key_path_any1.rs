// property=C08 harness=query::selector::verif_kani::c08_key_path_any1 seed=0
// concrete counterexample produced by CBMC; run with: bin/check --replay /verif/evidence/replay/C08-c08_key_path_any1.rs
// module=query::selector::verif_kani
/// Test generated for harness `query::selector::verif_kani::c08_key_path_any1` 
///
/// Check for `assertion`: "This is a placeholder message; Kani doesn't support message formatted at runtime"
///
/// # Warning
///
/// Concrete playback tests combined with stubs or contracts is highly
/// experimental, and subject to change.
///
/// The original harness has stubs which are not applied to this test.
/// This may cause a mismatch of non-deterministic values if the stub
/// creates any non-deterministic value.
/// The execution path may also differ, which can be used to refine the stub
/// logic.

#[test]
fn kani_concrete_playback_c08_key_path_any1_1843583917632262714() {
    let concrete_vals: Vec<Vec<u8>> = vec![
        // 39
        vec![39],
    ];
    kani::concrete_playback_run(concrete_vals, c08_key_path_any1);
}

/// Test generated for harness `query::selector::verif_kani::c08_key_path_any1` 
///
/// Check for `cover`: "the member is called ""
///
/// # Warning
///
/// Concrete playback tests combined with stubs or contracts is highly
/// experimental, and subject to change.
///
/// The original harness has stubs which are not applied to this test.
/// This may cause a mismatch of non-deterministic values if the stub
/// creates any non-deterministic value.
/// The execution path may also differ, which can be used to refine the stub
/// logic.

#[test]
fn kani_concrete_playback_c08_key_path_any1_488491220306645090() {
    let concrete_vals: Vec<Vec<u8>> = vec![
        // 34
        vec![34],
    ];
    kani::concrete_playback_run(concrete_vals, c08_key_path_any1);
}

