// property=C03 harness=query::selector::verif_kani::c03_key_path_plain2 seed=0
// concrete counterexample produced by CBMC; run with: bin/check --replay /verif/evidence/replay/C03-c03_key_path_plain2.rs
// module=query::selector::verif_kani
/// Test generated for harness `query::selector::verif_kani::c03_key_path_plain2` 
///
/// Check for `assertion`: ""name step of a Normalized Path must be ['<name>'] for a two-character member name""
///
/// # Warning
///
/// Concrete playback tests combined with stubs or contracts is highly
/// experimental, and subject to change.
///
/// The original harness has stubs which are not applied to this test.
/// This may cause a mismatch of non-deterministic values if the stub
/// creates any non-deterministic value.
/// The execution path may also differ, which can be used to refine the stub
/// logic.

#[test]
fn kani_concrete_playback_c03_key_path_plain2_9147414369313875900() {
    let concrete_vals: Vec<Vec<u8>> = vec![
        // 34
        vec![34],
        // 34
        vec![34],
    ];
    kani::concrete_playback_run(concrete_vals, c03_key_path_plain2);
}

/// Test generated for harness `query::selector::verif_kani::c03_key_path_plain2` 
///
/// Check for `cover`: "letters"
///
/// # Warning
///
/// Concrete playback tests combined with stubs or contracts is highly
/// experimental, and subject to change.
///
/// The original harness has stubs which are not applied to this test.
/// This may cause a mismatch of non-deterministic values if the stub
/// creates any non-deterministic value.
/// The execution path may also differ, which can be used to refine the stub
/// logic.

#[test]
fn kani_concrete_playback_c03_key_path_plain2_481053701542429238() {
    let concrete_vals: Vec<Vec<u8>> = vec![
        // 97
        vec![97],
        // 98
        vec![98],
    ];
    kani::concrete_playback_run(concrete_vals, c03_key_path_plain2);
}

