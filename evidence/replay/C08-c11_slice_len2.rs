// property=C08 harness=query::selector::verif_kani::c11_slice_len2 seed=0
// concrete counterexample produced by CBMC; run with: bin/check --replay /verif/evidence/replay/C08-c11_slice_len2.rs
// module=query::selector::verif_kani
/// Test generated for harness `query::selector::verif_kani::c11_slice_len2` 
///
/// Check for `cover`: "negative step, several elements"
///
/// # Warning
///
/// Concrete playback tests combined with stubs or contracts is highly
/// experimental, and subject to change.
///
/// The original harness has stubs which are not applied to this test.
/// This may cause a mismatch of non-deterministic values if the stub
/// creates any non-deterministic value.
/// The execution path may also differ, which can be used to refine the stub
/// logic.

#[test]
fn kani_concrete_playback_c11_slice_len2_12885221487041103734() {
    let concrete_vals: Vec<Vec<u8>> = vec![
        // 1
        vec![1],
        // 1
        vec![1, 0, 0, 0, 0, 0, 0, 0],
        // 1
        vec![1],
        // -4503599627370498
        vec![254, 255, 255, 255, 255, 255, 239, 255],
        // 1
        vec![1],
        // -1
        vec![255, 255, 255, 255, 255, 255, 255, 255],
    ];
    kani::concrete_playback_run(concrete_vals, c11_slice_len2);
}

/// Test generated for harness `query::selector::verif_kani::c11_slice_len2` 
///
/// Check for `cover`: "step > 1, several elements"
///
/// # Warning
///
/// Concrete playback tests combined with stubs or contracts is highly
/// experimental, and subject to change.
///
/// The original harness has stubs which are not applied to this test.
/// This may cause a mismatch of non-deterministic values if the stub
/// creates any non-deterministic value.
/// The execution path may also differ, which can be used to refine the stub
/// logic.

#[test]
fn kani_concrete_playback_c11_slice_len2_14440860804153719033() {
    let concrete_vals: Vec<Vec<u8>> = vec![
        // 0
        vec![0],
        // 0
        vec![0, 0, 0, 0, 0, 0, 0, 0],
        // 0
        vec![0],
        // 0
        vec![0, 0, 0, 0, 0, 0, 0, 0],
        // 0
        vec![0],
        // 0
        vec![0, 0, 0, 0, 0, 0, 0, 0],
    ];
    kani::concrete_playback_run(concrete_vals, c11_slice_len2);
}

/// Test generated for harness `query::selector::verif_kani::c11_slice_len2` 
///
/// Check for `cover`: "negative step, start absent"
///
/// # Warning
///
/// Concrete playback tests combined with stubs or contracts is highly
/// experimental, and subject to change.
///
/// The original harness has stubs which are not applied to this test.
/// This may cause a mismatch of non-deterministic values if the stub
/// creates any non-deterministic value.
/// The execution path may also differ, which can be used to refine the stub
/// logic.

#[test]
fn kani_concrete_playback_c11_slice_len2_8554438794987231280() {
    let concrete_vals: Vec<Vec<u8>> = vec![
        // 0
        vec![0],
        // 19
        vec![19, 0, 0, 0, 0, 0, 0, 0],
        // 1
        vec![1],
        // -9007199254740991
        vec![1, 0, 0, 0, 0, 0, 224, 255],
        // 1
        vec![1],
        // -9006099743113216
        vec![0, 0, 0, 0, 0, 1, 224, 255],
    ];
    kani::concrete_playback_run(concrete_vals, c11_slice_len2);
}

/// Test generated for harness `query::selector::verif_kani::c11_slice_len2` 
///
/// Check for `cover`: "step zero"
///
/// # Warning
///
/// Concrete playback tests combined with stubs or contracts is highly
/// experimental, and subject to change.
///
/// The original harness has stubs which are not applied to this test.
/// This may cause a mismatch of non-deterministic values if the stub
/// creates any non-deterministic value.
/// The execution path may also differ, which can be used to refine the stub
/// logic.

#[test]
fn kani_concrete_playback_c11_slice_len2_16351837748961545098() {
    let concrete_vals: Vec<Vec<u8>> = vec![
        // 1
        vec![1],
        // -2
        vec![254, 255, 255, 255, 255, 255, 255, 255],
        // 1
        vec![1],
        // -2
        vec![254, 255, 255, 255, 255, 255, 255, 255],
        // 1
        vec![1],
        // 0
        vec![0, 0, 0, 0, 0, 0, 0, 0],
    ];
    kani::concrete_playback_run(concrete_vals, c11_slice_len2);
}

/// Test generated for harness `query::selector::verif_kani::c11_slice_len2` 
///
/// Check for `assertion`: ""Vec::with_capacity: capacity overflow (panics in the real allocator path)""
///
/// # Warning
///
/// Concrete playback tests combined with stubs or contracts is highly
/// experimental, and subject to change.
///
/// The original harness has stubs which are not applied to this test.
/// This may cause a mismatch of non-deterministic values if the stub
/// creates any non-deterministic value.
/// The execution path may also differ, which can be used to refine the stub
/// logic.

#[test]
fn kani_concrete_playback_c11_slice_len2_11828346711466131336() {
    let concrete_vals: Vec<Vec<u8>> = vec![
        // 1
        vec![1],
        // 2
        vec![2, 0, 0, 0, 0, 0, 0, 0],
        // 1
        vec![1],
        // 0
        vec![0, 0, 0, 0, 0, 0, 0, 0],
        // 1
        vec![1],
        // 1
        vec![1, 0, 0, 0, 0, 0, 0, 0],
    ];
    kani::concrete_playback_run(concrete_vals, c11_slice_len2);
}

