// property=C04 harness=query::comparison::verif_kani::c04_iint_float seed=0
// concrete counterexample produced by CBMC; run with: bin/check --replay /verif/evidence/replay/C04-c04_iint_float.rs
// module=query::comparison::verif_kani
/// Test generated for harness `query::comparison::verif_kani::c04_iint_float` 
///
/// Check for `assertion`: ""< differs from RFC 9535 ordering""
///
/// # Warning
///
/// Concrete playback tests combined with stubs or contracts is highly
/// experimental, and subject to change.
///
/// The original harness has stubs which are not applied to this test.
/// This may cause a mismatch of non-deterministic values if the stub
/// creates any non-deterministic value.
/// The execution path may also differ, which can be used to refine the stub
/// logic.

#[test]
fn kani_concrete_playback_c04_iint_float_2585700851710742235() {
    let concrete_vals: Vec<Vec<u8>> = vec![
        // -5066549580791809
        vec![255, 255, 255, 255, 255, 255, 237, 255],
        // 5.283268e+269
        vec![0, 0, 0, 0, 64, 0, 240, 119],
    ];
    kani::concrete_playback_run(concrete_vals, c04_iint_float);
}

/// Test generated for harness `query::comparison::verif_kani::c04_iint_float` 
///
/// Check for `assertion`: ""< (mirrored operands) differs from RFC 9535 ordering""
///
/// # Warning
///
/// Concrete playback tests combined with stubs or contracts is highly
/// experimental, and subject to change.
///
/// The original harness has stubs which are not applied to this test.
/// This may cause a mismatch of non-deterministic values if the stub
/// creates any non-deterministic value.
/// The execution path may also differ, which can be used to refine the stub
/// logic.

#[test]
fn kani_concrete_playback_c04_iint_float_13146650219539076608() {
    let concrete_vals: Vec<Vec<u8>> = vec![
        // -108851651183167
        vec![193, 125, 255, 255, 255, 156, 255, 255],
        // -1.844674e+19
        vec![0, 0, 0, 0, 0, 0, 240, 195],
    ];
    kani::concrete_playback_run(concrete_vals, c04_iint_float);
}

/// Test generated for harness `query::comparison::verif_kani::c04_iint_float` 
///
/// Check for `cover`: "operands equal"
///
/// # Warning
///
/// Concrete playback tests combined with stubs or contracts is highly
/// experimental, and subject to change.
///
/// The original harness has stubs which are not applied to this test.
/// This may cause a mismatch of non-deterministic values if the stub
/// creates any non-deterministic value.
/// The execution path may also differ, which can be used to refine the stub
/// logic.

#[test]
fn kani_concrete_playback_c04_iint_float_17389115431153138801() {
    let concrete_vals: Vec<Vec<u8>> = vec![
        // 0
        vec![0, 0, 0, 0, 0, 0, 0, 0],
        // 0
        vec![0, 0, 0, 0, 0, 0, 0, 0],
    ];
    kani::concrete_playback_run(concrete_vals, c04_iint_float);
}

