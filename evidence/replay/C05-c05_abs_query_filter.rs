// property=C05 harness=query::filter::verif_kani::c05_abs_query_filter seed=0
// concrete counterexample produced by CBMC; run with: bin/check --replay /verif/evidence/replay/C05-c05_abs_query_filter.rs
// module=query::filter::verif_kani
/// Test generated for harness `query::filter::verif_kani::c05_abs_query_filter` 
///
/// Check for `assertion`: ""`?$[?@ == c]` must test the children of the document root""
///
/// # Warning
///
/// Concrete playback tests combined with stubs or contracts is highly
/// experimental, and subject to change.
///
/// The original harness has stubs which are not applied to this test.
/// This may cause a mismatch of non-deterministic values if the stub
/// creates any non-deterministic value.
/// The execution path may also differ, which can be used to refine the stub
/// logic.

#[test]
fn kani_concrete_playback_c05_abs_query_filter_5880275504015251194() {
    let concrete_vals: Vec<Vec<u8>> = vec![
        // -1l
        vec![255, 255, 255, 255, 255, 255, 255, 255],
        // -1l
        vec![255, 255, 255, 255, 255, 255, 255, 255],
        // -1l
        vec![255, 255, 255, 255, 255, 255, 255, 255],
    ];
    kani::concrete_playback_run(concrete_vals, c05_abs_query_filter);
}

/// Test generated for harness `query::filter::verif_kani::c05_abs_query_filter` 
///
/// Check for `cover`: "no root child equals c"
///
/// # Warning
///
/// Concrete playback tests combined with stubs or contracts is highly
/// experimental, and subject to change.
///
/// The original harness has stubs which are not applied to this test.
/// This may cause a mismatch of non-deterministic values if the stub
/// creates any non-deterministic value.
/// The execution path may also differ, which can be used to refine the stub
/// logic.

#[test]
fn kani_concrete_playback_c05_abs_query_filter_7552591558057145534() {
    let concrete_vals: Vec<Vec<u8>> = vec![
        // -9223372036854775808l
        vec![0, 0, 0, 0, 0, 0, 0, 128],
        // -9223372036854775808l
        vec![0, 0, 0, 0, 0, 0, 0, 128],
        // 0l
        vec![0, 0, 0, 0, 0, 0, 0, 0],
    ];
    kani::concrete_playback_run(concrete_vals, c05_abs_query_filter);
}

