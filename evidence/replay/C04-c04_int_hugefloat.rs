// property=C04 harness=query::comparison::verif_kani::c04_int_hugefloat seed=0
// concrete counterexample produced by CBMC; run with: bin/check --replay /verif/evidence/replay/C04-c04_int_hugefloat.rs
// module=query::comparison::verif_kani
/// Test generated for harness `query::comparison::verif_kani::c04_int_hugefloat` 
///
/// Check for `assertion`: ""== differs from RFC 9535 equality""
///
/// # Warning
///
/// Concrete playback tests combined with stubs or contracts is highly
/// experimental, and subject to change.
///
/// The original harness has stubs which are not applied to this test.
/// This may cause a mismatch of non-deterministic values if the stub
/// creates any non-deterministic value.
/// The execution path may also differ, which can be used to refine the stub
/// logic.

#[test]
fn kani_concrete_playback_c04_int_hugefloat_1913661856634233026() {
    let concrete_vals: Vec<Vec<u8>> = vec![
        // 9223372036854775807
        vec![255, 255, 255, 255, 255, 255, 255, 127],
        // 3.856409e+86
        vec![148, 0, 0, 47, 89, 208, 232, 81],
    ];
    kani::concrete_playback_run(concrete_vals, c04_int_hugefloat);
}

/// Test generated for harness `query::comparison::verif_kani::c04_int_hugefloat` 
///
/// Check for `cover`: "operands equal"
///
/// # Warning
///
/// Concrete playback tests combined with stubs or contracts is highly
/// experimental, and subject to change.
///
/// The original harness has stubs which are not applied to this test.
/// This may cause a mismatch of non-deterministic values if the stub
/// creates any non-deterministic value.
/// The execution path may also differ, which can be used to refine the stub
/// logic.

#[test]
fn kani_concrete_playback_c04_int_hugefloat_8533513049960115019() {
    let concrete_vals: Vec<Vec<u8>> = vec![
        // -72057594037927932
        vec![4, 0, 0, 0, 0, 0, 0, 255],
        // -8.988466e+307
        vec![0, 0, 0, 0, 0, 0, 224, 255],
    ];
    kani::concrete_playback_run(concrete_vals, c04_int_hugefloat);
}

