// property=C03 harness=query::selector::verif_kani::c03_roleb_key_path_escaped seed=0
// concrete counterexample produced by CBMC; run with: bin/check --replay /verif/evidence/replay/C03-c03_roleb_key_path_escaped.rs
// module=query::selector::verif_kani
/// Test generated for harness `query::selector::verif_kani::c03_roleb_key_path_escaped` 
///
/// Check for `assertion`: ""quote, backslash and control characters must be escaped in a Normalized Path""
///
/// # Warning
///
/// Concrete playback tests combined with stubs or contracts is highly
/// experimental, and subject to change.
///
/// The original harness has stubs which are not applied to this test.
/// This may cause a mismatch of non-deterministic values if the stub
/// creates any non-deterministic value.
/// The execution path may also differ, which can be used to refine the stub
/// logic.

#[test]
fn kani_concrete_playback_c03_roleb_key_path_escaped_10594669298862196943() {
    let concrete_vals: Vec<Vec<u8>> = vec![
        // 9
        vec![9],
    ];
    kani::concrete_playback_run(concrete_vals, c03_roleb_key_path_escaped);
}

/// Test generated for harness `query::selector::verif_kani::c03_roleb_key_path_escaped` 
///
/// Check for `assertion`: "This is a placeholder message; Kani doesn't support message formatted at runtime"
///
/// # Warning
///
/// Concrete playback tests combined with stubs or contracts is highly
/// experimental, and subject to change.
///
/// The original harness has stubs which are not applied to this test.
/// This may cause a mismatch of non-deterministic values if the stub
/// creates any non-deterministic value.
/// The execution path may also differ, which can be used to refine the stub
/// logic.

#[test]
fn kani_concrete_playback_c03_roleb_key_path_escaped_17118554175448421915() {
    let concrete_vals: Vec<Vec<u8>> = vec![
        // 39
        vec![39],
    ];
    kani::concrete_playback_run(concrete_vals, c03_roleb_key_path_escaped);
}

