// property=C05 harness=query::filter::verif_kani::c05_exist_idx_n1 seed=0
// concrete counterexample produced by CBMC; run with: bin/check --replay /verif/evidence/replay/C05-c05_exist_idx_n1.rs
// module=query::filter::verif_kani
/// Test generated for harness `query::filter::verif_kani::c05_exist_idx_n1` 
///
/// Check for `assertion`: ""existence test over an index must be true exactly when that element exists""
///
/// # Warning
///
/// Concrete playback tests combined with stubs or contracts is highly
/// experimental, and subject to change.
///
/// The original harness has stubs which are not applied to this test.
/// This may cause a mismatch of non-deterministic values if the stub
/// creates any non-deterministic value.
/// The execution path may also differ, which can be used to refine the stub
/// logic.

#[test]
fn kani_concrete_playback_c05_exist_idx_n1_10338553567647658949() {
    let concrete_vals: Vec<Vec<u8>> = vec![
        // 1ul
        vec![1, 0, 0, 0, 0, 0, 0, 0],
        // 1
        vec![1],
        // -1l
        vec![255, 255, 255, 255, 255, 255, 255, 255],
    ];
    kani::concrete_playback_run(concrete_vals, c05_exist_idx_n1);
}

/// Test generated for harness `query::filter::verif_kani::c05_exist_idx_n1` 
///
/// Check for `cover`: "non-negative index addressing an existing element"
///
/// # Warning
///
/// Concrete playback tests combined with stubs or contracts is highly
/// experimental, and subject to change.
///
/// The original harness has stubs which are not applied to this test.
/// This may cause a mismatch of non-deterministic values if the stub
/// creates any non-deterministic value.
/// The execution path may also differ, which can be used to refine the stub
/// logic.

#[test]
fn kani_concrete_playback_c05_exist_idx_n1_3944089589123818500() {
    let concrete_vals: Vec<Vec<u8>> = vec![
        // 1ul
        vec![1, 0, 0, 0, 0, 0, 0, 0],
        // 1
        vec![1],
        // 0l
        vec![0, 0, 0, 0, 0, 0, 0, 0],
    ];
    kani::concrete_playback_run(concrete_vals, c05_exist_idx_n1);
}

/// Test generated for harness `query::filter::verif_kani::c05_exist_idx_n1` 
///
/// Check for `cover`: "no such element"
///
/// # Warning
///
/// Concrete playback tests combined with stubs or contracts is highly
/// experimental, and subject to change.
///
/// The original harness has stubs which are not applied to this test.
/// This may cause a mismatch of non-deterministic values if the stub
/// creates any non-deterministic value.
/// The execution path may also differ, which can be used to refine the stub
/// logic.

#[test]
fn kani_concrete_playback_c05_exist_idx_n1_8650300413716388720() {
    let concrete_vals: Vec<Vec<u8>> = vec![
        // 1ul
        vec![1, 0, 0, 0, 0, 0, 0, 0],
        // 1
        vec![1],
        // -6473924464345089l
        vec![255, 255, 255, 255, 255, 255, 232, 255],
    ];
    kani::concrete_playback_run(concrete_vals, c05_exist_idx_n1);
}

