// property=C11 harness=query::selector::verif_kani::c11_index_len4 seed=0
// concrete counterexample produced by CBMC; run with: bin/check --replay /verif/evidence/replay/C11-c11_index_len4.rs
// module=query::selector::verif_kani
/// Test generated for harness `query::selector::verif_kani::c11_index_len4` 
///
/// Check for `assertion`: ""index selected nothing where RFC selects a node""
///
/// # Warning
///
/// Concrete playback tests combined with stubs or contracts is highly
/// experimental, and subject to change.
///
/// The original harness has stubs which are not applied to this test.
/// This may cause a mismatch of non-deterministic values if the stub
/// creates any non-deterministic value.
/// The execution path may also differ, which can be used to refine the stub
/// logic.

#[test]
fn kani_concrete_playback_c11_index_len4_4447022056485779103() {
    let concrete_vals: Vec<Vec<u8>> = vec![
        // -4
        vec![252, 255, 255, 255, 255, 255, 255, 255],
    ];
    kani::concrete_playback_run(concrete_vals, c11_index_len4);
}

/// Test generated for harness `query::selector::verif_kani::c11_index_len4` 
///
/// Check for `cover`: "negative index in range"
///
/// # Warning
///
/// Concrete playback tests combined with stubs or contracts is highly
/// experimental, and subject to change.
///
/// The original harness has stubs which are not applied to this test.
/// This may cause a mismatch of non-deterministic values if the stub
/// creates any non-deterministic value.
/// The execution path may also differ, which can be used to refine the stub
/// logic.

#[test]
fn kani_concrete_playback_c11_index_len4_3860482271367974373() {
    let concrete_vals: Vec<Vec<u8>> = vec![
        // -3
        vec![253, 255, 255, 255, 255, 255, 255, 255],
    ];
    kani::concrete_playback_run(concrete_vals, c11_index_len4);
}

/// Test generated for harness `query::selector::verif_kani::c11_index_len4` 
///
/// Check for `cover`: "negative index out of range"
///
/// # Warning
///
/// Concrete playback tests combined with stubs or contracts is highly
/// experimental, and subject to change.
///
/// The original harness has stubs which are not applied to this test.
/// This may cause a mismatch of non-deterministic values if the stub
/// creates any non-deterministic value.
/// The execution path may also differ, which can be used to refine the stub
/// logic.

#[test]
fn kani_concrete_playback_c11_index_len4_16379080427029925047() {
    let concrete_vals: Vec<Vec<u8>> = vec![
        // -9007199254740979
        vec![13, 0, 0, 0, 0, 0, 224, 255],
    ];
    kani::concrete_playback_run(concrete_vals, c11_index_len4);
}

/// Test generated for harness `query::selector::verif_kani::c11_index_len4` 
///
/// Check for `cover`: "positive index out of range"
///
/// # Warning
///
/// Concrete playback tests combined with stubs or contracts is highly
/// experimental, and subject to change.
///
/// The original harness has stubs which are not applied to this test.
/// This may cause a mismatch of non-deterministic values if the stub
/// creates any non-deterministic value.
/// The execution path may also differ, which can be used to refine the stub
/// logic.

#[test]
fn kani_concrete_playback_c11_index_len4_15589827877957848517() {
    let concrete_vals: Vec<Vec<u8>> = vec![
        // 1125899906842627
        vec![3, 0, 0, 0, 0, 0, 4, 0],
    ];
    kani::concrete_playback_run(concrete_vals, c11_index_len4);
}

