// property=C15 harness=query::comparison::verif_kani::c15_null_literal_bool seed=0
// concrete counterexample produced by CBMC; run with: bin/check --replay /verif/evidence/replay/C15-c15_null_literal_bool.rs
// module=query::comparison::verif_kani
/// Test generated for harness `query::comparison::verif_kani::c15_null_literal_bool` 
///
/// Check for `assertion`: ""`null == @` must hold exactly when the node is null""
///
/// # Warning
///
/// Concrete playback tests combined with stubs or contracts is highly
/// experimental, and subject to change.
///
/// The original harness has stubs which are not applied to this test.
/// This may cause a mismatch of non-deterministic values if the stub
/// creates any non-deterministic value.
/// The execution path may also differ, which can be used to refine the stub
/// logic.

#[test]
fn kani_concrete_playback_c15_null_literal_bool_13491079461705690718() {
    let concrete_vals: Vec<Vec<u8>> = vec![
        // 1
        vec![1],
    ];
    kani::concrete_playback_run(concrete_vals, c15_null_literal_bool);
}

/// Test generated for harness `query::comparison::verif_kani::c15_null_literal_bool` 
///
/// Check for `cover`: "end reached"
///
/// # Warning
///
/// Concrete playback tests combined with stubs or contracts is highly
/// experimental, and subject to change.
///
/// The original harness has stubs which are not applied to this test.
/// This may cause a mismatch of non-deterministic values if the stub
/// creates any non-deterministic value.
/// The execution path may also differ, which can be used to refine the stub
/// logic.

#[test]
fn kani_concrete_playback_c15_null_literal_bool_1327127147197786394() {
    let concrete_vals: Vec<Vec<u8>> = vec![
        // 0
        vec![0],
    ];
    kani::concrete_playback_run(concrete_vals, c15_null_literal_bool);
}

