// property=C15 harness=query::comparison::verif_kani::c05_cmp_root_index seed=0
// concrete counterexample produced by CBMC; run with: bin/check --replay /verif/evidence/replay/C15-c05_cmp_root_index.rs
// module=query::comparison::verif_kani
/// Test generated for harness `query::comparison::verif_kani::c05_cmp_root_index` 
///
/// Check for `assertion`: ""`$[i] == @` must compare element i of the document root with the current node""
///
/// # Warning
///
/// Concrete playback tests combined with stubs or contracts is highly
/// experimental, and subject to change.
///
/// The original harness has stubs which are not applied to this test.
/// This may cause a mismatch of non-deterministic values if the stub
/// creates any non-deterministic value.
/// The execution path may also differ, which can be used to refine the stub
/// logic.

#[test]
fn kani_concrete_playback_c05_cmp_root_index_17648167091399293673() {
    let concrete_vals: Vec<Vec<u8>> = vec![
        // -1l
        vec![255, 255, 255, 255, 255, 255, 255, 255],
        // -1l
        vec![255, 255, 255, 255, 255, 255, 255, 255],
        // -1l
        vec![255, 255, 255, 255, 255, 255, 255, 255],
        // 2ul
        vec![2, 0, 0, 0, 0, 0, 0, 0],
        // 1l
        vec![1, 0, 0, 0, 0, 0, 0, 0],
    ];
    kani::concrete_playback_run(concrete_vals, c05_cmp_root_index);
}

/// Test generated for harness `query::comparison::verif_kani::c05_cmp_root_index` 
///
/// Check for `assertion`: ""`$[i] < @` must compare element i of the document root with the current node""
///
/// # Warning
///
/// Concrete playback tests combined with stubs or contracts is highly
/// experimental, and subject to change.
///
/// The original harness has stubs which are not applied to this test.
/// This may cause a mismatch of non-deterministic values if the stub
/// creates any non-deterministic value.
/// The execution path may also differ, which can be used to refine the stub
/// logic.

#[test]
fn kani_concrete_playback_c05_cmp_root_index_16025239163877338209() {
    let concrete_vals: Vec<Vec<u8>> = vec![
        // -1l
        vec![255, 255, 255, 255, 255, 255, 255, 255],
        // 0l
        vec![0, 0, 0, 0, 0, 0, 0, 0],
        // 72057594037927935l
        vec![255, 255, 255, 255, 255, 255, 255, 0],
        // 2ul
        vec![2, 0, 0, 0, 0, 0, 0, 0],
        // 0l
        vec![0, 0, 0, 0, 0, 0, 0, 0],
    ];
    kani::concrete_playback_run(concrete_vals, c05_cmp_root_index);
}

/// Test generated for harness `query::comparison::verif_kani::c05_cmp_root_index` 
///
/// Check for `cover`: "negative index, equal"
///
/// # Warning
///
/// Concrete playback tests combined with stubs or contracts is highly
/// experimental, and subject to change.
///
/// The original harness has stubs which are not applied to this test.
/// This may cause a mismatch of non-deterministic values if the stub
/// creates any non-deterministic value.
/// The execution path may also differ, which can be used to refine the stub
/// logic.

#[test]
fn kani_concrete_playback_c05_cmp_root_index_1127380291706845108() {
    let concrete_vals: Vec<Vec<u8>> = vec![
        // -1l
        vec![255, 255, 255, 255, 255, 255, 255, 255],
        // -1l
        vec![255, 255, 255, 255, 255, 255, 255, 255],
        // -1l
        vec![255, 255, 255, 255, 255, 255, 255, 255],
        // 2ul
        vec![2, 0, 0, 0, 0, 0, 0, 0],
        // -1l
        vec![255, 255, 255, 255, 255, 255, 255, 255],
    ];
    kani::concrete_playback_run(concrete_vals, c05_cmp_root_index);
}

/// Test generated for harness `query::comparison::verif_kani::c05_cmp_root_index` 
///
/// Check for `cover`: "no such root element"
///
/// # Warning
///
/// Concrete playback tests combined with stubs or contracts is highly
/// experimental, and subject to change.
///
/// The original harness has stubs which are not applied to this test.
/// This may cause a mismatch of non-deterministic values if the stub
/// creates any non-deterministic value.
/// The execution path may also differ, which can be used to refine the stub
/// logic.

#[test]
fn kani_concrete_playback_c05_cmp_root_index_3919292006592364502() {
    let concrete_vals: Vec<Vec<u8>> = vec![
        // -1l
        vec![255, 255, 255, 255, 255, 255, 255, 255],
        // 0l
        vec![0, 0, 0, 0, 0, 0, 0, 0],
        // 72057594037927935l
        vec![255, 255, 255, 255, 255, 255, 255, 0],
        // 2ul
        vec![2, 0, 0, 0, 0, 0, 0, 0],
        // 281474976710660l
        vec![4, 0, 0, 0, 0, 0, 1, 0],
    ];
    kani::concrete_playback_run(concrete_vals, c05_cmp_root_index);
}

/// Test generated for harness `query::comparison::verif_kani::c05_cmp_root_index` 
///
/// Check for `cover`: "root element less than the current node"
///
/// # Warning
///
/// Concrete playback tests combined with stubs or contracts is highly
/// experimental, and subject to change.
///
/// The original harness has stubs which are not applied to this test.
/// This may cause a mismatch of non-deterministic values if the stub
/// creates any non-deterministic value.
/// The execution path may also differ, which can be used to refine the stub
/// logic.

#[test]
fn kani_concrete_playback_c05_cmp_root_index_6082574642175916998() {
    let concrete_vals: Vec<Vec<u8>> = vec![
        // 0l
        vec![0, 0, 0, 0, 0, 0, 0, 0],
        // 0l
        vec![0, 0, 0, 0, 0, 0, 0, 0],
        // 4294967298l
        vec![2, 0, 0, 0, 1, 0, 0, 0],
        // 2ul
        vec![2, 0, 0, 0, 0, 0, 0, 0],
        // -2l
        vec![254, 255, 255, 255, 255, 255, 255, 255],
    ];
    kani::concrete_playback_run(concrete_vals, c05_cmp_root_index);
}

