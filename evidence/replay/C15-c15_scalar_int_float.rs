// property=C15 harness=query::comparison::verif_kani::c15_scalar_int_float seed=0
// concrete counterexample produced by CBMC; run with: bin/check --replay /verif/evidence/replay/C15-c15_scalar_int_float.rs
// module=query::comparison::verif_kani
/// Test generated for harness `query::comparison::verif_kani::c15_scalar_int_float` 
///
/// Check for `assertion`: ""< differs between serde_json::Value and another faithful Queryable""
///
/// # Warning
///
/// Concrete playback tests combined with stubs or contracts is highly
/// experimental, and subject to change.
///
/// The original harness has stubs which are not applied to this test.
/// This may cause a mismatch of non-deterministic values if the stub
/// creates any non-deterministic value.
/// The execution path may also differ, which can be used to refine the stub
/// logic.

#[test]
fn kani_concrete_playback_c15_scalar_int_float_12184256236669216231() {
    let concrete_vals: Vec<Vec<u8>> = vec![
        // 0
        vec![0, 0, 0, 0, 0, 0, 0, 0],
        // 7.291122e-304
        vec![0, 0, 0, 0, 0, 0, 0, 1],
    ];
    kani::concrete_playback_run(concrete_vals, c15_scalar_int_float);
}

/// Test generated for harness `query::comparison::verif_kani::c15_scalar_int_float` 
///
/// Check for `assertion`: ""> differs between serde_json::Value and another faithful Queryable""
///
/// # Warning
///
/// Concrete playback tests combined with stubs or contracts is highly
/// experimental, and subject to change.
///
/// The original harness has stubs which are not applied to this test.
/// This may cause a mismatch of non-deterministic values if the stub
/// creates any non-deterministic value.
/// The execution path may also differ, which can be used to refine the stub
/// logic.

#[test]
fn kani_concrete_playback_c15_scalar_int_float_17807602644003460172() {
    let concrete_vals: Vec<Vec<u8>> = vec![
        // -41943040
        vec![0, 0, 128, 253, 255, 255, 255, 255],
        // -2.034917e+236
        vec![0, 0, 0, 0, 0, 0, 0, 241],
    ];
    kani::concrete_playback_run(concrete_vals, c15_scalar_int_float);
}

/// Test generated for harness `query::comparison::verif_kani::c15_scalar_int_float` 
///
/// Check for `cover`: "end reached"
///
/// # Warning
///
/// Concrete playback tests combined with stubs or contracts is highly
/// experimental, and subject to change.
///
/// The original harness has stubs which are not applied to this test.
/// This may cause a mismatch of non-deterministic values if the stub
/// creates any non-deterministic value.
/// The execution path may also differ, which can be used to refine the stub
/// logic.

#[test]
fn kani_concrete_playback_c15_scalar_int_float_4952018817682425974() {
    let concrete_vals: Vec<Vec<u8>> = vec![
        // 0
        vec![0, 0, 0, 0, 0, 0, 0, 0],
        // -0
        vec![0, 0, 0, 0, 0, 0, 0, 128],
    ];
    kani::concrete_playback_run(concrete_vals, c15_scalar_int_float);
}

