// property=C04 harness=query::comparison::verif_kani::c04_float_float seed=0
// concrete counterexample produced by CBMC; run with: bin/check --replay /verif/evidence/replay/C04-c04_float_float.rs
// module=query::comparison::verif_kani
/// Test generated for harness `query::comparison::verif_kani::c04_float_float` 
///
/// Check for `assertion`: ""== differs from RFC 9535 equality""
///
/// # Warning
///
/// Concrete playback tests combined with stubs or contracts is highly
/// experimental, and subject to change.
///
/// The original harness has stubs which are not applied to this test.
/// This may cause a mismatch of non-deterministic values if the stub
/// creates any non-deterministic value.
/// The execution path may also differ, which can be used to refine the stub
/// logic.

#[test]
fn kani_concrete_playback_c04_float_float_1858091455914872853() {
    let concrete_vals: Vec<Vec<u8>> = vec![
        // -4.043175e-174
        vec![0, 0, 0, 0, 0, 0, 240, 155],
        // -1.117361e-249
        vec![0, 0, 0, 0, 0, 0, 64, 140],
    ];
    kani::concrete_playback_run(concrete_vals, c04_float_float);
}

/// Test generated for harness `query::comparison::verif_kani::c04_float_float` 
///
/// Check for `cover`: "operands equal"
///
/// # Warning
///
/// Concrete playback tests combined with stubs or contracts is highly
/// experimental, and subject to change.
///
/// The original harness has stubs which are not applied to this test.
/// This may cause a mismatch of non-deterministic values if the stub
/// creates any non-deterministic value.
/// The execution path may also differ, which can be used to refine the stub
/// logic.

#[test]
fn kani_concrete_playback_c04_float_float_12638035018682039998() {
    let concrete_vals: Vec<Vec<u8>> = vec![
        // 0
        vec![0, 0, 0, 0, 0, 0, 0, 0],
        // 0
        vec![0, 0, 0, 0, 0, 0, 0, 0],
    ];
    kani::concrete_playback_run(concrete_vals, c04_float_float);
}

/// Test generated for harness `query::comparison::verif_kani::c04_float_float` 
///
/// Check for `cover`: "operands differ"
///
/// # Warning
///
/// Concrete playback tests combined with stubs or contracts is highly
/// experimental, and subject to change.
///
/// The original harness has stubs which are not applied to this test.
/// This may cause a mismatch of non-deterministic values if the stub
/// creates any non-deterministic value.
/// The execution path may also differ, which can be used to refine the stub
/// logic.

#[test]
fn kani_concrete_playback_c04_float_float_12330473242493820945() {
    let concrete_vals: Vec<Vec<u8>> = vec![
        // -1.066882e+242
        vec![0, 0, 0, 0, 0, 0, 48, 242],
        // -3.864538e+171
        vec![0, 0, 0, 0, 0, 0, 144, 227],
    ];
    kani::concrete_playback_run(concrete_vals, c04_float_float);
}

