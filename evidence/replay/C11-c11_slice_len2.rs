// no concrete playback test produced for query::selector::verif_kani::c11_slice_len2
